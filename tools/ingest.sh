#!/bin/sh
# developer helper: tools/ingest.sh <Sxx-Cyy> <worktree>   -- copy a sub-agent's deliverables, evaluate, drop the worktree
set -e
id=$1; src=$2
mkdir -p /verif/seeded/$id
cp $src/_out/patch.diff $src/_out/demo.py $src/_out/meta.json /verif/seeded/$id/
cd /verif && /venv/bin/python -m pbt.seeded_run seeded/$id | cut -c1-500
git -C /repo worktree remove --force $src
