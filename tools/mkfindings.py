"""Developer tool (never run by a check): writes /verif/known_findings.json with replayable reproducers.

  cd /verif && /venv/bin/python tools/mkfindings.py

Every reproducer is a case in the replay format of the check that owns it; open findings must be
attributed to the finding by that check's replay(), fixed ones must pass.
"""
import json
import os
import sys

ROOT = os.path.dirname(os.path.dirname(os.path.abspath(__file__)))
sys.path.insert(0, ROOT)

from pbt import model  # noqa
from pbt.model import (AColumn, AEnum, AEnumItem, AGroup, AIndex, AProject, ARef, ASchema, ASticky, ATable)  # noqa
from pbt.surface import Style, write  # noqa


def T(name='t', schema='public', cols=None, **kw):
    return ATable(schema, name, cols or [AColumn('id', ('plain', 'int'))], **kw)


def c01(s, text=None):
    return dict(schema=model.to_json(s), text=text if text is not None else write(s, Style())[0])


def c02(s, how='built'):
    d = dict(schema=model.to_json(s), how=how)
    if how == 'parsed':
        d['text'] = write(s, Style())[0]
    return d


def c03(s, how='built'):
    d = dict(schema=model.to_json(s), how=how, text=None)
    if how == 'parsed':
        d['text'] = write(s, Style())[0]
    return d


F = []


def fixed(fid, props, commit, what, repro, site):
    F.append(dict(id=fid, properties=props, status='fixed', commit=commit, site=site, what=what, repro=repro,
                  log=[f'fixed: property={p} {commit} {what}' for p in props]))


def opened(fid, props, what, repro, site, feature=None, kind='destructive', pinned=None):
    d = dict(id=fid, properties=props, status='open', kind=kind, site=site, what=what, repro=repro)
    if feature:
        d['feature'] = feature
    if pinned:
        d['pinned_by'] = pinned
    F.append(d)


# ---- fixed ---------------------------------------------------------------------------------------
fixed('F-WSNOTE', ['C08', 'C13'], 'c7f533a', "whitespace-only note (Note: '  ') made parsing escape with ValueError from remove_indentation",
      {'C08': dict(text="Table t {\n id int\n Note: '  '\n}\n"), 'C13': dict(string='  ', arm='parse')}, 'pydbml/tools.py:remove_indentation')
fixed('F-TYPEDOTS', ['C08'], '00013b0', 'column type "a.b.c" made parsing escape with ValueError (split on every dot)',
      {'C08': dict(text='Table t {\n id "a.b.c"\n}\n')}, 'pydbml/parser/blueprints.py:ColumnBlueprint.build')
fixed('F-FORMAT', ['C08', 'C14'], 'e19158b', "braces in a reference comment or table name made .sql raise KeyError/IndexError/ValueError (str.format over user text)",
      {'C08': dict(text='Table t {\n id int\n}\nTable "a{b" {\n id int\n}\n// {x}\nRef: t.id > "a{b".id\n// {0}\nRef: t.id <> "a{b".id\n')},
      'pydbml/renderer/sql/default/reference.py')
fixed('F-RENAME', ['C09'], '6895b94', 'after renaming a contained table db[new name] failed, the old key still resolved and delete() raised KeyError after popping the list',
      {'C09': dict(ops=[['add', 'B'], ['rename', 'B', 'alias', 'y'], ['rename', 'B', 'schema', 's2'], ['delete', 'B'], ['add', 'B']])}, 'pydbml/database.py:table_dict')
fixed('F-DELCOPY', ['C09'], '3bebf75', 'delete_column/delete_index through an equal copy detached the copy, kept the removed object attached and raised ValueError',
      {'C09': dict(ops=[['delete_column_copy', 'A', 'A2']])}, 'pydbml/_classes/table.py:delete_column')
fixed('F-DELPROJ', ['C09'], '4558a8f', 'Database.delete(other_project) removed and detached the project that was actually set',
      {'C09': dict(ops=[['add', 'P1'], ['delete', 'P2']])}, 'pydbml/database.py:delete')
fixed('F-STICKYDEL', ['C09'], 'bfea48f', "Database.delete(sticky_note) raised 'Unsupported type': a sticky note could never be removed",
      {'C09': dict(ops=[['add', 'S1'], ['delete', 'S1'], ['add', 'S1']])}, 'pydbml/database.py:delete')
s = ASchema(tables=[T()], groups=[AGroup('g', [('public', 't')], note='group note')])
fixed('F-TGNOTE', ['C05'], 'e2ed3aa', "a table group's note had parent None",
      {'C05': c01(s)}, 'pydbml/_classes/table_group.py')
base = 'Enum e {\n a\n b\n}\nTable t {\n id e\n}\nTable u {\n id int\n}\nProject p {\n k: \'v\'\n}\nRef r {\n t.id > u.id\n}\n'
fixed('F-ENUMTRAIL', ['C14'], '31b9241', 'trailing comment on an enum item without settings was dropped',
      {'C14': dict(arm='capture', text='Enum e {\n a // first\n b\n}\n',
                   schema=model.to_json(ASchema(enums=[AEnum('public', 'e', [AEnumItem('a'), AEnumItem('b')])])),
                   commented=model.to_json(ASchema(enums=[AEnum('public', 'e', [AEnumItem('a', comment='first'), AEnumItem('b')])])))},
      'pydbml/definitions/enum.py:parse_enum_item')
fixed('F-CLOSECOMMENT', ['C14'], 'bb8eba2', "'} // comment' after a Project or block Ref was a syntax error",
      {'C14': dict(arm='inert', base=base, text=base.replace("k: 'v'\n}", "k: 'v'\n} // after project").replace('t.id > u.id\n}', 't.id > u.id\n} /* after ref */'))},
      'pydbml/definitions/project.py, reference.py')
fixed('F-ENUMCLOSE', ['C14', 'C01'], '7f717b0', "a blank or comment line before an Enum's closing brace was a syntax error",
      {'C14': dict(arm='inert', base=base, text=base.replace(' b\n}', ' b\n\n // last\n}'))}, 'pydbml/definitions/enum.py')
fixed('F-BSLASH', ['C02', 'C13'], '84f7859', 'backslashes in text were not escaped in DBML output (drift, or an unparseable literal when the text ends in a backslash)',
      {'C13': dict(string='end\\', arm='render'),
       'C02': c02(ASchema(tables=[T(note='a\\b', cols=[AColumn('id', ('plain', 'int'), note='end\\', default=('str', 'x\\'))])]))},
      'pydbml/renderer/dbml/default/utils.py:prepare_text_for_dbml')
fixed('F-IXNAME', ['C02', 'C13'], '54edc08', "an index name containing a quote was written unescaped (name: 'it's')",
      {'C13': dict(string="it's", arm='render')}, 'pydbml/renderer/dbml/default/index.py')
fixed('F-PROJVAL', ['C02', 'C13'], 'ab3d7c6', 'project field values were written unescaped',
      {'C02': c02(ASchema(project=AProject('p', [('k', "it's \\ x")])))}, 'pydbml/renderer/dbml/default/project.py')
s = ASchema(tables=[T(cols=[AColumn('my id', ('plain', 'int')), AColumn('x', ('plain', 'int'))],
                      indexes=[AIndex([('col', 'my id')]), AIndex([('col', 'my id'), ('col', 'x')])])],
            stickies=[ASticky('my note', 'text')])
s.refs = [ARef('>', ('public', 't'), ['my id'], ('public', 't'), ['x'], name='my ref')]
fixed('F-UNQUOTED', ['C02'], '2d2704d', 'reference names, sticky note names and index subjects that need quoting were written bare',
      {'C02': c02(s)}, 'pydbml/renderer/dbml/default/{reference,sticky_note,index}.py')
s = ASchema(tables=[T('t', 's', cols=[AColumn('id', ('plain', 'int'), note='col note')], note='table note',
                      indexes=[AIndex([('col', 'id')], unique=True)])])
fixed('F-IXSCHEMA', ['C03'], 'df55296', 'CREATE INDEX named the table without its schema', {'C03': c03(s)}, 'pydbml/renderer/sql/default/index.py')
fixed('F-NOTESCHEMA', ['C03'], 'ad6c37d', 'COMMENT ON TABLE/COLUMN named the table without its schema', {'C03': c03(s)},
      'pydbml/renderer/sql/default/note.py, table.py')
s = ASchema(tables=[T(cols=[AColumn('id', ('plain', 'int'), pk=True, props=[('k', 'v')])])], allow_properties=True)
fixed('F-PROPNL', ['C01', 'C15'], '9149824', 'a property after a line break inside a column settings list was a syntax error',
      {'C01': c01(s, "Table t {\n id int [pk,\n  k: 'v'\n ]\n}\n")}, 'pydbml/definitions/column.py')
s = ASchema(tables=[T('notes'), T('t2', cols=[AColumn('id', ('plain', 'int'), props=[('nullable', 'no'), ('pkg', 'x')])], props=[('notes', 'n'), ('indexes_x', 'i')])],
            groups=[AGroup('g', [('public', 'notes')])], project=AProject('p', [('notes', 'x')]), allow_properties=True)
fixed('F-KWPREFIX', ['C01', 'C02', 'C15'], 'c483255', 'a bare identifier starting with a keyword (notes, indexes_x, nullable, pkg) was taken for the keyword',
      {'C01': c01(s, "Table notes {\n id int\n}\nTable t2 {\n id int [nullable: 'no', pkg: 'x']\n notes: 'n'\n indexes_x: 'i'\n}\n"
                     "TableGroup g {\n notes\n}\nProject p {\n notes: 'x'\n}\n")}, 'pydbml/definitions/{common,column,index}.py')

# ---- open ----------------------------------------------------------------------------------------
s = ASchema(tables=[T('a.b')], groups=[AGroup('g', [('public', 'a.b')])])
opened('F-DOT', ['C01', 'C02'], "a quoted table/enum/schema name containing '.' is split on the dot in TableGroup items and in enum type lookup",
       {'C01': c01(s), 'C02': c02(s)}, 'pydbml/parser/blueprints.py:TableGroupBlueprint.build, ColumnBlueprint.build', 'dot_in_name')
s = ASchema(tables=[T(cols=[AColumn('x)', ('plain', 'int')), AColumn('y', ('plain', 'int'))])])
s.refs = [ARef('>', ('public', 't'), ['x)'], ('public', 't'), ['y'])]
opened('F-REFSPLIT', ['C01', 'C02'], "a referenced column name containing ',' or starting/ending with '(' ')' or a blank is split/stripped when the reference is built",
       {'C01': c01(s), 'C02': c02(s)}, 'pydbml/parser/blueprints.py:ReferenceBlueprint.build', 'ref_col_trim',
       pinned='test_definitions/test_reference.py pins the raw "(col1 ,  col2,col3)" string')
s = ASchema(tables=[T(cols=[AColumn('id', ('plain', 'int'), default=('int', 0)), AColumn('b', ('plain', 'bool'), default=('bool', False))])])
opened('F-FALSY', ['C02'], "a default of 0 / 0.0 / false / '' is omitted from .dbml (SQL keeps it)", {'C02': c02(s)},
       'pydbml/renderer/dbml/default/column.py:render_options', 'falsy_default', pinned='test_integration (integration1.dbml), test_column::test_complex')
s = ASchema(tables=[T(cols=[AColumn('id', ('plain', 'varchar'), default=('str', 'true'))])])
opened('F-STRBOOL', ['C02', 'C13'], "a string default 'true' / 'false' / 'null' is rendered bare and re-parses as boolean / NULL", {'C02': c02(s), 'C13': dict(string='true', arm='render')},
       'pydbml/renderer/dbml/default/column.py:default_to_str', 'str_bool_default', pinned='test_column::test_default_to_str')
s = ASchema(tables=[T('a'), T('b', cols=[AColumn('id', ('plain', 'int'))])])
s.tables[1].columns[0].refs = [ARef('>', ('public', 'b'), ['id'], ('public', 'a'), ['id'], inline=True)]
s.refs = [ARef('<', ('public', 'a'), ['id'], ('public', 'b'), ['id'], name='standalone')]
s.layout = [('table', 0), ('ref', 0), ('table', 1)]
opened('F-REFORDER', ['C02'], 'db.refs order changes over a DBML round trip when a standalone reference precedes a table with an inline one',
       {'C02': c02(s, 'parsed')}, 'pydbml/renderer/dbml/default/renderer.py:render_db', 'mixed_layout')
s = ASchema(tables=[T(cols=[AColumn('id', ('plain', 'int'), note='line one\nline two')])])
opened('F-MLSET', ['C02', 'C13'], 'a multi-line note in column / index / enum-item settings gains indentation on every render/parse cycle',
       {'C02': c02(s), 'C13': dict(string='a\nb', arm='render')}, 'pydbml/renderer/dbml/default/utils.py:note_option_to_dbml + table indentation',
       'multiline_settings_note', pinned='test_renderer/test_dbml/test_utils.py')
s = ASchema(tables=[T(props=[('k', 'line one\nline two')])], allow_properties=True)
opened('F-MLPROP', ['C02', 'C13', 'C15'], 'a multi-line property / project value gains a leading newline and indentation per cycle',
       {'C02': c02(s), 'C15': dict(schema=model.to_json(s), arm='on', text=write(s, Style())[0])}, 'pydbml/renderer/dbml/default/utils.py:quote_string, project.py:render_items',
       'multiline_value', pinned='docs/properties.md doctest, test_project')
s = ASchema(tables=[T(cols=[AColumn('id', ('plain', 'varchar'), default=('str', 'l1\nl2'))])])
opened('F-MLDEFAULT', ['C02', 'C13'], 'a multi-line string default / index name is rendered in single quotes (unparseable); a multi-line expression default gains indentation',
       {'C02': c02(s)}, 'pydbml/renderer/dbml/default/column.py:default_to_str, index.py', 'multiline_default')
s = ASchema(tables=[T(cols=[AColumn('id', ('plain', 'character varying')), AColumn('b', ('plain', 'my type(3)'))])])
fixed('F-TYPEQUOTE', ['C02'], 'dc07908', 'a column type that needs quoting ("character varying") was rendered bare and did not parse back',
      {'C02': c02(s)}, 'pydbml/renderer/dbml/default/column.py:render_column')
s = ASchema(tables=[T(cols=[AColumn('id', ('plain', 'float'), default=('float', 1e-05)), AColumn('b', ('plain', 'float'), default=('float', 1e+22))])])
fixed('F-FLOATEXP', ['C02'], '40d2ae8', 'a float default whose repr uses an exponent (1e-05) was rendered as such and did not parse back',
      {'C02': c02(s)}, 'pydbml/renderer/dbml/default/column.py:default_to_str')
s = ASchema(tables=[T(note="a'''b")])
opened('F-TRIPLE', ['C02', 'C13'], "text containing ''' is escaped only at its first quote: inside a single-line literal, or at the end of a multi-line text, it ends the literal early",
       {'C02': c02(ASchema(tables=[T(cols=[AColumn('id', ('plain', 'int'), note="a'''b")])])), 'C13': dict(string="a'''b", arm='render')},
       'pydbml/renderer/dbml/default/utils.py:prepare_text_for_dbml', 'triple_quote_text', pinned='test_note.py::test_prepare_text_for_dbml')
s = ASchema(tables=[T(note='a\n  \nb')])
opened('F-WSLINE', ['C02', 'C13'], 'a whitespace-only line inside a multi-line note loses its blanks over a render/parse cycle (textwrap.indent skips it)',
       {'C02': c02(s), 'C13': dict(string='a\n  \nb', arm='render')}, 'pydbml/renderer/dbml/default/note.py (textwrap.indent)', 'ws_only_line')
sb = ASchema(tables=[T(cols=[AColumn('id', ('plain', 'int')), AColumn('v', ('plain', 'int'))])])
sc = ASchema(tables=[T(cols=[AColumn('id', ('plain', 'int')), AColumn('v', ('plain', 'int'), comment='about v')])])
opened('F-COLCOMMENT', ['C14', 'C02'], "a column's comment is rendered above the column, where the table body skips comments, so it is lost when the DBML is parsed again",
       {'C14': dict(arm='capture', text='Table t {\n id int\n v int // about v\n}\n', schema=model.to_json(sb), commented=model.to_json(sc))},
       'pydbml/renderer/dbml/default/column.py:render_column', kind='local', pinned='test_renderer/test_dbml/test_column.py')
s = ASchema(tables=[T('a', cols=[AColumn('id', ('plain', 'int'))]), T('b')])
s.tables[0].columns[0].refs = [ARef('>', ('public', 'a'), ['id'], ('public', 'b'), ['id'], inline=True)]
opened('F-ORDER', ['C18'], 'tables are sorted by descending number of inline keys held, so a key holder precedes the table it references',
       {'C18': dict(schema=model.to_json(s), how='built', text=None)}, 'pydbml/renderer/sql/default/utils.py:reorder_tables_for_sql', kind='local',
       pinned='test_utils.py::test_reorder_tables, test_data/integration1.sql')

fixed('F-ALIASSCHEMA', ['C06', 'C05'], '44e1889', 'a schema-qualified name whose last part equals a table alias (nosuch.U) was looked up as the alias and bound to the aliased table instead of raising TableNotFoundError',
      {'C06': dict(kind='ref_missing_table', text='Table users as U {\n  id int\n}\nTable posts {\n  uid int\n}\nRef: posts.uid > nosuch.U.id\n', allow_properties=False)},
      'pydbml/parser/parser.py:locate_table')

fixed('F-DOUBLEBOM', ['C12'], '8760c83', 'the constructor stripped a byte order mark and then called parse, which strips one too: a text starting with two U+FEFF was accepted by PyDBML(source) and rejected by PyDBML.parse / parse_file',
      {'C12': dict(text='\ufeff\ufeffTable t {\n  id int\n}\n', options='default')}, 'pydbml/parser/parser.py:PyDBML.__new__')

fixed('F-BIGINT', ['C08'], 'dcd88d0', 'a number default with more digits than int() converts (4301 and more on Python 3.11+) escaped from PyDBML.parse as ValueError',
      {'C08': dict(text='Table t {\n  x int [default: ' + '1' * 4301 + ']\n}\n', gen='regression')}, 'pydbml/definitions/column.py:number_literal parse action')

sb = ASchema(enums=[AEnum('public', 'e', [AEnumItem('a')])])
sc = ASchema(enums=[AEnum('public', 'e', [AEnumItem('a', comment='fs\x1cz')])])
opened('F-LINESEP', ['C14'], 'a comment containing a character that str.splitlines() treats as a line boundary (FF, VT, FS/GS/RS, NEL, U+2028, U+2029) gains indentation after it when its element is rendered inside an indented block (textwrap.indent), so the DBML output re-parses to a different comment',
       {'C14': dict(arm='capture', text='Enum e {\n a // fs\x1cz\n}\n', schema=model.to_json(sb), commented=model.to_json(sc))},
       'pydbml/renderer/dbml/default/*.py, sql/default/table.py, enum.py (textwrap.indent)', kind='local')

json.dump({'findings': F}, open(os.path.join(ROOT, 'known_findings.json'), 'w'), indent=1, ensure_ascii=False)
print(len(F), 'findings written')
