"""Developer tool: regenerate MANIFEST.json (cd /verif && /venv/bin/python tools/mkmanifest.py)."""
import json
import os

ROOT = os.path.dirname(os.path.dirname(os.path.abspath(__file__)))
T = {
 'C01': ('MODEL + METAMORPHIC', 'independent DBML writer x abstract schema; exhaustive per-element feature products packed per document x sampled styles, plus Hypothesis-sampled whole documents (mixed layouts, same names across schemas, expressions over a free alphabet); zone arms for open findings',
         'the writer emits only documented spellings; tabs in text and backslashes in names are outside the domain (pyparsing behaviour)'),
 'C02': ('ROUNDTRIP + FIXPOINT + SQL differential', 'parsed and API-built databases over the DBML-expressible domain, then the same database after an in-place edit script (still inside the expressible domain); triggers of open findings excluded by construction and exercised in zone arms with stage-aware explanations',
         'content is read through public attributes by an independent extractor; sub-domains of open findings (known_findings.json) are excluded from the strict campaign'),
 'C03': ('MODEL via an independent SQL DDL reader', 'expected DDL structure computed from the abstract schema, compared as multisets / ordered column lists, for parsed and API-built databases and again after render - in-place edits - render',
         'single-line defaults and expressions; spelling of boolean defaults and the quote-neutralisation style are unconstrained'),
 'C04': ('MODEL via the SQL DDL reader', 'expected multiset of foreign keys (holder, columns, target, name, actions, placement) and join-table shape computed from the abstract references, incl. API-only inline composite references, and again after render - in-place edits - render',
         'names/actions of the two join-table foreign keys are unconstrained (statement silent)'),
 'C05': ('INVARIANT over object identity', 'parsed documents whose tables are addressed in random admissible ways (schema.name, bare, alias), same names across schemas, near-miss enum type names',
         'aliases disjoint from table names; SQL key holder observed through get_references_for_sql'),
 'C06': ('EXCEPTION-CLASS', 'valid generated documents with exactly one injected rule violation (20 kinds, random positions, spellings and addressings), with a control arm',
         'single fault by construction; duplicates differing only in a comment are not generated'),
 'C07': ('EXCEPTION-CLASS + leak probe', 'valid generated documents (with comments) and one provably invalid fault placed at a known token/line boundary (14 kinds), control arm; after every rejection a probe document must parse clean (no fragment leaks into a later result)',
         'word-like stray tokens are not in the catalogue (often valid DBML)'),
 'C08': ('EXCEPTION-CLASS whitelist + render-everything', 'token soup, generated documents with every feature on, structure-aware mutations, exhaustive short strings in 36 template holes, bare literals in every value position',
         'nesting depth bounded; slow cases counted as inconclusive'),
 'C09': ('INVARIANT vs reference model', 'after every step of exhaustively enumerated (depth 3/4, render-focused depth 4/5) and Hypothesis-generated (length <= 60) operation histories over a clash-rich universe, with renderings as observers',
         'renames never create clashes; deleting a column through an equal copy is checked with a two-outcome validity predicate'),
 'C10': ('DIFFERENTIAL live vs fresh build', 'edited database vs a fresh build of the edited abstract schema, database-level and per element, renderings evaluated before and between edits',
         'both sides share the renderer, so only staleness shows'),
 'C11': ('DIFFERENTIAL vs pristine process', 'forked grandchild per document gives the pristine outcome; sequential, repeated, post-edit and threaded parses must agree; reclamation via gc/weakref; grammar-singleton invariants',
         'thread schedules are sampled under the GIL, not owned: sound but incomplete for races'),
 'C12': ('DIFFERENTIAL across entry points', '8 source routes x BOM x options; constructor type refusal; ASCII-locale subprocess arm',
         'files written as UTF-8'),
 'C13': ('MODEL (normalisation predicate) + ROUNDTRIP + SQL literal checks', 'exhaustive short strings over the critical alphabet, indentation patterns and Hypothesis text at 12 text sites and as expressions',
         'tabs excluded; sites broken by open findings are exercised in zone mode with stage-aware explanations'),
 'C14': ('METAMORPHIC inertness + MODEL capture + rendering/round-trip', 'comment plans placed on the writer\'s line map, stratified over capturing element kinds',
         'comment text without leading/trailing blanks; F-COLCOMMENT explained only at column comment paths'),
 'C15': ('MODEL + ROUNDTRIP (on), EXCEPTION-CLASS (off), rendering gate, on/off DIFFERENTIAL', 'schemas with properties mixed with ordinary settings in one- and multi-line lists; flag flips on API-built models; property-free documents for the differential',
         'multi-line property values only in the zone arm while F-MLPROP is open'),
 'C16': ('MODEL for generated partial renderers + exact cover + purity', 'marker or empty string per element under random partial renderers, detached elements vs default twin, exact cover of database text by element texts, purity under shuffled schedules',
         'Index/Note/EnumItem/Expression renderer choice is not asserted'),
 'C17': ('EXCEPTION-CLASS over an exhaustive matrix', 'inconsistency cells (missing attribute x history x route; detached / mixed / same-named-mixed / inline-composite references) with control twins, plus inconsistencies injected into sampled schemas',
         'only the enumerated attributes are cleared; .sql of a mixed-side reference is unconstrained'),
 'C18': ('permutation + determinism strict, topological with exact F-ORDER predicate', 'generated DAGs of inline references and arbitrary schemas; repeat, rebuild and other-PYTHONHASHSEED-process renderings',
         'F-ORDER (pinned by the suite) explains only edges the counting heuristic mis-orders'),
}
checks = []
for pid in sorted(T):
    oracle, dom, note = T[pid]
    checks.append({
        'property_id': pid,
        'quick_cmd': f'/venv/bin/python -m pbt.run {pid} --tier quick',
        'thorough_cmd': f'/venv/bin/python -m pbt.run {pid} --tier thorough',
        'evidence_file': f'evidence/{pid}.json',
        'replay_cmd_template': f'/venv/bin/python -m pbt.run {pid} --replay {{path}}',
        'engine': 'pbt',
        'level_claimed': {'category': 'exploration',
                          'text': f'generated-input search against an explicit oracle ({oracle}): {dom}. Sound (every reported violation is a real behaviour of the real code) and bounded: the property is established only for the explored cases, whose number, non-trivial share and class histogram are in the evidence file; sensitivity is documented by mutants/ and seeded/ (DESIGN.md sections 8-9).',
                          'design_ref': f'DESIGN.md section 5, {pid}'},
        'level_note': note + '; trusted base: CPython, pyparsing, Hypothesis, and the /verif/pbt writer / extractor / SQL reader / reference models.',
        'technique': f'property-based testing (Hypothesis) + exhaustive small-scope enumeration; oracle: {oracle}',
    })
m = {
 'version': 1,
 'setup_cmd': "/venv/bin/python -c 'import hypothesis' 2>/dev/null || /venv/bin/pip install --no-index --find-links /opt/veriftools/wheels hypothesis",
 'hooks': {'guard': 'PYDBML_VERIF',
           'enable': 'no hooks: every property is observable through the public API; nothing in /repo reads PYDBML_VERIF',
           'baseline_off_cmd': 'cd /repo && /venv/bin/python -m pytest -ra -q -p no:cacheprovider --timeout=900 --continue-on-collection-errors',
           'source_commits': [], 'add_only': True},
 'engines': [{'name': 'pbt', 'path': 'pbt/', 'serves_properties': sorted(T),
              'kind_free_text': 'Hypothesis strategies + exhaustive small-scope enumeration, sharded over 16 processes; independent DBML writer, content extractor, SQL DDL reader and reference models; root-cause bucketing, replay files, known-findings registry'}],
 'checks': checks,
 'notes': 'python -m pbt.run <Cxx> --tier quick|thorough [--replay path]; env VERIF_SEED (default 1), VERIF_REPO (default /repo). Exit 0 held / 1 VIOLATION / 2 harness error. Known findings: known_findings.json (regenerated by tools/mkfindings.py at development time only). Sensitivity: mutants/<Cxx>/*.patch (python -m pbt.mutation_run), mutants/grammar (python -m pbt.grammar_mutants), mutants/code (python -m pbt.code_mutants), independently seeded changes seeded/<id>/ (python -m pbt.seeded_run).',
 'not_applicable': [],
}
json.dump(m, open(os.path.join(ROOT, 'MANIFEST.json'), 'w'), indent=1)
print('written')
