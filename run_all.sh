#!/bin/sh
# developer helper: run every check of a tier, print one line each
tier=${1:-quick}
for p in C01 C02 C03 C04 C05 C06 C07 C08 C09 C10 C11 C12 C13 C14 C15 C16 C17 C18; do
  /venv/bin/python -m pbt.run $p --tier $tier > /tmp/pbt_$p.log 2>&1; rc=$?
  echo "rc=$rc $(head -1 /tmp/pbt_$p.log | cut -c1-160)"
  [ $rc -ne 0 ] && grep -v KNOWN /tmp/pbt_$p.log | head -8
done
