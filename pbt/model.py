"""Abstract schema model (no dependency on pydbml) and the canonical 'content' form that
both `expected(schema)` and `extract.extract(db)` produce."""
from __future__ import annotations

import json
from dataclasses import asdict, dataclass, field, fields, is_dataclass
from typing import Any, Dict, List, Optional, Tuple

# A column type is ('plain', text) or ('enum', schema, name)
# A default is (kind, value) with kind in int|float|bool|str|expr|null  (null has value None)
# An index subject is ('col', name) or ('expr', text)


@dataclass
class ARef:
    kind: str                       # > < - <>
    t1: Tuple[str, str]             # (schema, table)
    c1: List[str]
    t2: Tuple[str, str]
    c2: List[str]
    name: Optional[str] = None
    on_update: Optional[str] = None
    on_delete: Optional[str] = None
    comment: Optional[str] = None
    inline: bool = False


@dataclass
class AColumn:
    name: str
    type: Tuple
    pk: bool = False
    unique: bool = False
    not_null: bool = False
    autoinc: bool = False
    default: Optional[Tuple[str, Any]] = None
    note: Optional[str] = None
    comment: Optional[str] = None
    props: List[Tuple[str, str]] = field(default_factory=list)
    refs: List[ARef] = field(default_factory=list)      # inline refs declared by this column


@dataclass
class AIndex:
    subjects: List[Tuple[str, str]]
    name: Optional[str] = None
    unique: bool = False
    type: Optional[str] = None
    pk: bool = False
    note: Optional[str] = None
    comment: Optional[str] = None


@dataclass
class ATable:
    schema: str
    name: str
    columns: List[AColumn]
    alias: Optional[str] = None
    indexes: List[AIndex] = field(default_factory=list)
    note: Optional[str] = None
    header_color: Optional[str] = None
    comment: Optional[str] = None
    props: List[Tuple[str, str]] = field(default_factory=list)

    @property
    def key(self):
        return (self.schema, self.name)

    def col(self, name):
        for c in self.columns:
            if c.name == name:
                return c
        raise KeyError(name)


@dataclass
class AEnumItem:
    name: str
    note: Optional[str] = None
    comment: Optional[str] = None


@dataclass
class AEnum:
    schema: str
    name: str
    items: List[AEnumItem]
    comment: Optional[str] = None


@dataclass
class AGroup:
    name: str
    items: List[Tuple[str, str]]
    note: Optional[str] = None
    color: Optional[str] = None
    comment: Optional[str] = None


@dataclass
class ASticky:
    name: str
    text: str


@dataclass
class AProject:
    name: str
    items: List[Tuple[str, str]] = field(default_factory=list)
    note: Optional[str] = None
    comment: Optional[str] = None


@dataclass
class ASchema:
    tables: List[ATable] = field(default_factory=list)
    enums: List[AEnum] = field(default_factory=list)
    refs: List[ARef] = field(default_factory=list)         # standalone refs (and api-only inline ones)
    groups: List[AGroup] = field(default_factory=list)
    stickies: List[ASticky] = field(default_factory=list)
    project: Optional[AProject] = None
    # document order of the top-level elements: ('project',0) ('enum',i) ('table',i) ('ref',i) ('group',i) ('sticky',i)
    layout: List[Tuple[str, int]] = field(default_factory=list)
    allow_properties: bool = False

    def table(self, key) -> ATable:
        for t in self.tables:
            if t.key == tuple(key):
                return t
        raise KeyError(key)

    def default_layout(self):
        lay = []
        if self.project:
            lay.append(('project', 0))
        lay += [('enum', i) for i in range(len(self.enums))]
        lay += [('table', i) for i in range(len(self.tables))]
        lay += [('ref', i) for i in range(len(self.refs))]
        lay += [('group', i) for i in range(len(self.groups))]
        lay += [('sticky', i) for i in range(len(self.stickies))]
        return lay

    def get_layout(self):
        return [tuple(x) for x in self.layout] if self.layout else self.default_layout()

    def all_refs(self) -> List[ARef]:
        """References in the order the parser stores them: document order, a table's inline
        references at the table's position (column order, then order inside the settings list)."""
        out = []
        for kind, i in self.get_layout():
            if kind == 'table':
                for c in self.tables[i].columns:
                    out.extend(c.refs)
            elif kind == 'ref':
                out.append(self.refs[i])
        return out


# ---------------------------------------------------------------------------------------------
# JSON (de)serialisation for replay files

def to_json(obj):
    if is_dataclass(obj):
        d = {f.name: to_json(getattr(obj, f.name)) for f in fields(obj)}
        d['__t'] = type(obj).__name__
        return d
    if isinstance(obj, (list, tuple)):
        return [to_json(x) for x in obj]
    if isinstance(obj, float):
        return {'__t': 'float', 'v': repr(obj)}
    return obj


_CLASSES = {c.__name__: c for c in (ARef, AColumn, AIndex, ATable, AEnumItem, AEnum, AGroup, ASticky,
                                    AProject, ASchema)}


def from_json(obj):
    if isinstance(obj, dict):
        if obj.get('__t') == 'float':
            return float(obj['v'])
        cls = _CLASSES[obj['__t']]
        kw = {k: from_json(v) for k, v in obj.items() if k != '__t'}
        return _fix(cls(**kw))
    if isinstance(obj, list):
        return [from_json(x) for x in obj]
    return obj


def _t(x):
    return tuple(x) if isinstance(x, list) else x


def _fix(o):
    """Restore tuples after JSON."""
    if isinstance(o, ARef):
        o.t1, o.t2 = tuple(o.t1), tuple(o.t2)
    elif isinstance(o, AColumn):
        o.type = tuple(o.type)
        o.default = tuple(o.default) if o.default is not None else None
        o.props = [tuple(p) for p in o.props]
    elif isinstance(o, AIndex):
        o.subjects = [tuple(s) for s in o.subjects]
    elif isinstance(o, ATable):
        o.props = [tuple(p) for p in o.props]
    elif isinstance(o, AGroup):
        o.items = [tuple(i) for i in o.items]
    elif isinstance(o, AProject):
        o.items = [tuple(i) for i in o.items]
    elif isinstance(o, ASchema):
        o.layout = [tuple(x) for x in o.layout]
    return o


# ---------------------------------------------------------------------------------------------
# canonical content form

def tag(v):
    """Type-tagged value so that True != 1 and 1.0 != 1."""
    if v is None:
        return None
    if isinstance(v, bool):
        return ['bool', v]
    if isinstance(v, int):
        return ['int', v]
    if isinstance(v, float):
        return ['float', repr(v)]
    if isinstance(v, str):
        return ['str', v]
    return [type(v).__name__, repr(v)]


def exp_default(d):
    if d is None:
        return None
    kind, v = d
    if kind == 'null':
        return ['str', 'NULL']
    if kind == 'expr':
        return ['expr', v]
    if kind == 'float':
        return ['float', repr(float(v))]
    return [kind, v]


def exp_ref(r: ARef):
    return dict(type=r.kind, inline=bool(r.inline and r.kind != '<>'), t1=list(r.t1), c1=list(r.c1), t2=list(r.t2),
                c2=list(r.c2), name=r.name, on_update=r.on_update, on_delete=r.on_delete,
                comment=r.comment)


def expected(s: ASchema) -> Dict[str, Any]:
    """The content a faithful parser must produce for schema `s` (document-order rule included)."""
    out: Dict[str, Any] = {}
    p = s.project
    out['project'] = None if p is None else dict(
        name=p.name, items=[list(i) for i in p.items], note=p.note or '', comment=p.comment)
    out['enums'] = [dict(schema=e.schema, name=e.name, comment=e.comment,
                         items=[dict(name=i.name, note=i.note or '', comment=i.comment) for i in e.items])
                    for e in s.enums]
    tabs = []
    for t in s.tables:
        cols = [dict(name=c.name, type=list(c.type), pk=c.pk, unique=c.unique, not_null=c.not_null,
                     autoinc=c.autoinc, default=exp_default(c.default), note=c.note or '',
                     comment=c.comment, props=[list(p) for p in c.props]) for c in t.columns]
        idx = [dict(subjects=[list(x) for x in i.subjects], name=i.name, unique=i.unique, type=i.type,
                    pk=i.pk, note=i.note or '', comment=i.comment) for i in t.indexes]
        tabs.append(dict(schema=t.schema, name=t.name, alias=t.alias, note=t.note or '',
                         header_color=t.header_color, comment=t.comment,
                         props=[list(p) for p in t.props], columns=cols, indexes=idx))
    out['tables'] = tabs
    out['refs'] = [exp_ref(r) for r in s.all_refs()]
    out['groups'] = [dict(name=g.name, items=[list(i) for i in g.items], note=g.note or '',
                          color=g.color, comment=g.comment) for g in s.groups]
    out['stickies'] = [dict(name=n.name, text=n.text) for n in s.stickies]
    return out


def diff(exp, act, path='') -> List[Tuple[str, Any, Any]]:
    """Structural difference as a list of (path, expected, actual)."""
    out = []
    if isinstance(exp, dict) and isinstance(act, dict):
        for k in sorted(set(exp) | set(act)):
            if k not in exp:
                out.append((f'{path}.{k}', '<absent>', act[k]))
            elif k not in act:
                out.append((f'{path}.{k}', exp[k], '<absent>'))
            else:
                out.extend(diff(exp[k], act[k], f'{path}.{k}'))
    elif isinstance(exp, list) and isinstance(act, list) and _is_seq_of_records(exp, act):
        if len(exp) != len(act):
            out.append((f'{path}.#', len(exp), len(act)))
        for i, (a, b) in enumerate(zip(exp, act)):
            out.extend(diff(a, b, f'{path}[{i}]'))
    else:
        if exp != act or type(exp) is not type(act):
            out.append((path, exp, act))
    return out


def _is_seq_of_records(a, b):
    return all(isinstance(x, dict) for x in a) and all(isinstance(x, dict) for x in b) and (a or b)


def path_class(path: str) -> str:
    """Path with indexes removed: the discrepancy class used in bucket keys."""
    import re
    return re.sub(r'\[\d+\]', '[]', path)
