"""Shared runner plumbing: shard contexts, Hypothesis driver with root-cause bucketing,
evidence and replay files, exit codes (0 held / 1 violation / 2 harness error)."""
from __future__ import annotations

import hashlib
import json
import os
import sys
import time
import traceback
from collections import Counter
from dataclasses import dataclass, field
from typing import Any, Callable, Dict, List, Optional

ROOT = os.path.dirname(os.path.dirname(os.path.abspath(__file__)))
REPO = os.environ.get('VERIF_REPO', '/repo')


def setup_repo():
    """Put the repository under test first on sys.path and make sure that is what gets imported."""
    repo = os.path.abspath(REPO)
    if sys.path[0] != repo:
        sys.path.insert(0, repo)
    import pydbml  # noqa
    path = os.path.abspath(pydbml.__file__)
    if not path.startswith(repo + os.sep):
        raise HarnessError(f'pydbml imported from {path}, expected under {repo}')
    return repo


class HarnessError(Exception):
    pass


def jhash(obj: Any) -> str:
    return hashlib.sha1(json.dumps(obj, sort_keys=True, default=str).encode()).hexdigest()[:16]


def thash(text: str) -> str:
    return hashlib.sha1(text.encode('utf8', 'surrogatepass')).hexdigest()[:16]


@dataclass
class Viol:
    bucket: str                 # root-cause key: violations in one bucket are reported once
    message: str
    case: Dict[str, Any]        # replayable, JSON-serialisable
    finding: Optional[str] = None   # id of the OPEN known finding that explains it, if any
    size: int = 0

    def export(self):
        return dict(bucket=self.bucket, message=self.message, case=self.case,
                    finding=self.finding, size=self.size)


class Ctx:
    """Per-shard accumulator. Everything in it is picklable via export()."""
    MAX_SAMPLES = 4

    def __init__(self, pid: str, tier: str, seed: int, shard: int, nshards: int):
        self.pid, self.tier, self.seed, self.shard, self.nshards = pid, tier, seed, shard, nshards
        self.evals = 0
        self.nt: set = set()
        self.classes: Counter = Counter()
        self.samples: List[Any] = []
        self.viols: Dict[str, Viol] = {}
        self.known: Counter = Counter()
        self.excluded: Counter = Counter()
        self.notes: List[str] = []
        self.extra: Dict[str, Any] = {}
        self.exhaustive_arms: List[str] = []
        self.shrink_spent = 0.0

    # -- counting ---------------------------------------------------------------------
    def record(self, key: str, nontrivial: bool, classes=(), sample: Any = None):
        self.evals += 1
        if nontrivial:
            if key not in self.nt and sample is not None and len(self.samples) < self.MAX_SAMPLES:
                self.samples.append(sample)
            self.nt.add(key)
        for c in classes:
            self.classes[c] += 1

    def add(self, viols: List[Viol]) -> List[Viol]:
        """Register violations; returns the ones not explained by an open known finding."""
        real = []
        for v in viols:
            if v.finding:
                self.known[v.finding] += 1
            else:
                real.append(v)
                old = self.viols.get(v.bucket)
                if old is None or (v.size, len(v.message)) < (old.size, len(old.message)):
                    self.viols[v.bucket] = v
        return real

    def hseed(self, name: str, rnd: int = 0) -> int:
        base = self.seed * 1000 + self.shard
        h = hashlib.sha1(f'{base}/{self.pid}/{name}/{rnd}'.encode()).hexdigest()
        return int(h[:12], 16)

    def export(self):
        return dict(evals=self.evals, nt=sorted(self.nt), classes=dict(self.classes),
                    samples=self.samples, viols=[v.export() for v in self.viols.values()],
                    known=dict(self.known), excluded=dict(self.excluded), notes=self.notes,
                    extra=self.extra, exhaustive_arms=self.exhaustive_arms)


class _Found(Exception):
    pass


def hyp_run(ctx: Ctx, name: str, strategy, fn: Callable[[Any], List[Viol]], max_examples: int,
            shrink_budget_s: Optional[float] = None, max_rounds: int = 4):
    """Drive `fn` over `strategy` with Hypothesis.

    `fn(case)` evaluates one generated case, calls ctx.record(...) itself and returns the list of
    Viol it found. Violations explained by open known findings are counted and ignored.  An
    unexplained violation is shrunk by Hypothesis (bounded by shrink_budget_s wall seconds: after
    that every further call passes, Hypothesis gives up and the smallest failing case seen is kept);
    its bucket is then ignored and the campaign continues with the remaining budget, so one shallow
    defect does not hide the next (collect-then-shrink)."""
    import hypothesis
    from hypothesis import HealthCheck, Phase, given, settings
    from hypothesis.errors import Flaky

    if shrink_budget_s is None:
        shrink_budget_s = 8.0 if ctx.tier == 'quick' else 90.0
    ignored: set = set(ctx.viols.keys())     # buckets already reported by an earlier arm of this shard
    remaining = max_examples
    rnd = 0
    while remaining > 0 and rnd < max_rounds:
        state = {'best': None, 't0': None, 'n': 0}

        def body(case):
            state['n'] += 1
            if state['t0'] is not None and time.time() - state['t0'] > shrink_budget_s:
                return
            if state['t0'] is None and ctx.shrink_spent > 4 * shrink_budget_s:
                # shrink budget of this shard is used up: keep collecting buckets, unshrunk
                ctx.add(_guard(ctx, fn, case))
                return
            viols = ctx.add(_guard(ctx, fn, case))
            new = [v for v in viols if v.bucket not in ignored]
            if new:
                v = min(new, key=lambda x: (x.size, len(x.message)))
                if state['t0'] is None:
                    state['t0'] = time.time()
                b = state['best']
                if b is None or (v.size, len(v.message)) <= (b.size, len(b.message)):
                    state['best'] = v
                raise _Found()

        test = given(strategy)(body)
        test = hypothesis.seed(ctx.hseed(name, rnd))(test)
        test = settings(max_examples=remaining, database=None, deadline=None, derandomize=False,
                        report_multiple_bugs=False, suppress_health_check=list(HealthCheck),
                        phases=[Phase.generate, Phase.shrink], print_blob=False)(test)
        try:
            test()
        except _Found:
            pass
        except Flaky:
            if state['best'] is None:
                raise
        except BaseException as e:  # a failure found by Hypothesis may arrive wrapped
            if state['best'] is None or not _is_found(e):
                raise
        if state['best'] is None:
            break
        ctx.shrink_spent += time.time() - state['t0']
        ignored.add(state['best'].bucket)
        ignored.update(ctx.viols.keys())
        remaining -= state['n']
        rnd += 1


def _guard(ctx, fn, case):
    """fn(case), with one kind of exception turned into a violation: the library refusing a model the generators hold to be
    expressible while it is built through the public classes (on the unchanged tree this never happens; on a changed one
    it is a defect every property quantifying over "every database built through the public classes" is exposed to)."""
    from .build import BuildFailed
    try:
        return fn(case)
    except BuildFailed as e:
        return [Viol(f'{ctx.pid.lower()}:build-raised:{type(e.exc).__name__}',
                     f'building a generated model through the public classes raised {type(e.exc).__name__}: {e.exc}',
                     dict(build_failed=True, schema=e.schema_json))]


def _is_found(e: BaseException) -> bool:
    if isinstance(e, _Found):
        return True
    subs = getattr(e, 'exceptions', None)
    if subs:
        return any(_is_found(s) for s in subs)
    return False


# ---------------------------------------------------------------------------------------------
# parent side


def _shard_entry(args):
    modname, pid, tier, seed, shard, nshards = args
    try:
        os.environ.setdefault('PYTHONHASHSEED', '0')
        setup_repo()
        import importlib
        mod = importlib.import_module(modname)
        ctx = Ctx(pid, tier, seed, shard, nshards)
        mod.shard(ctx)
        return ('ok', ctx.export())
    except BaseException:
        return ('err', traceback.format_exc())


def run_check(modname: str, pid: str, tier: str, seed: int, nshards: int = 16) -> int:
    import importlib
    import multiprocessing as mp
    from . import findings as F

    t0 = time.time()
    setup_repo()
    mod = importlib.import_module(modname)
    nshards = getattr(mod, 'NSHARDS', nshards)
    args = [(modname, pid, tier, seed, i, nshards) for i in range(nshards)]
    if nshards == 1:
        results = [_shard_entry(args[0])]
    else:
        mpctx = mp.get_context('fork')
        with mpctx.Pool(min(nshards, os.cpu_count() or 1)) as pool:
            results = pool.map(_shard_entry, args, chunksize=1)
    errs = [r[1] for r in results if r[0] == 'err']
    if errs:
        print(f'HARNESS-ERROR property={pid}\n' + errs[0], file=sys.stderr)
        return 2
    shards = [r[1] for r in results]

    evals = sum(s['evals'] for s in shards)
    nt = set()
    classes: Counter = Counter()
    known: Counter = Counter()
    excluded: Counter = Counter()
    samples, notes = [], []
    extra: Dict[str, Any] = {}
    exhaustive_arms: List[str] = []
    viols: Dict[str, Dict] = {}
    for s in shards:
        nt.update(s['nt'])
        classes.update(s['classes'])
        known.update(s['known'])
        excluded.update(s['excluded'])
        for smp in s['samples']:
            if len(samples) < 8 and smp not in samples:
                samples.append(smp)
        notes.extend(n for n in s['notes'] if n not in notes)
        for k, v in s['extra'].items():
            if isinstance(v, (int, float)) and isinstance(extra.get(k, 0), (int, float)):
                extra[k] = extra.get(k, 0) + v
            else:
                extra[k] = v
        for a in s['exhaustive_arms']:
            if a not in exhaustive_arms:
                exhaustive_arms.append(a)
        for v in s['viols']:
            old = viols.get(v['bucket'])
            if old is None or (v['size'], len(v['message'])) < (old['size'], len(old['message'])):
                viols[v['bucket']] = v

    # replay tier + known-finding reproducers (parent process, seconds)
    setup = getattr(mod, 'RULE', '')
    open_findings = F.open_for(pid)
    kf_lines = []
    for f in open_findings:
        status = 'not-replayed'
        if hasattr(mod, 'replay') and f.get('repro') is not None:
            try:
                vs = mod.replay(f['repro'])
            except BaseException:
                print(f'HARNESS-ERROR property={pid} replaying finding {f["id"]}\n'
                      + traceback.format_exc(), file=sys.stderr)
                return 2
            hit = [v for v in vs if v.finding == f['id']]
            other = [v for v in vs if not v.finding]
            for v in other:
                viols.setdefault(v.bucket, v.export())
            status = 'reproduced' if hit else 'no-longer-fails'
        if status == 'no-longer-fails' and not known.get(f['id']):
            print(f'NOTE: property={pid} {f["id"]} recorded reproducer no longer fails')
        else:
            kf_lines.append(f'KNOWN-FINDING: property={pid} {f["id"]} {f["what"]}'
                            f' [seen {known.get(f["id"], 0)}x in campaign, reproducer {status}]')
    # regression inputs of fixed findings and saved mutant-killers
    reg_n = 0
    for case in F.regression_cases(pid):
        if not hasattr(mod, 'replay'):
            break
        try:
            vs = mod.replay(case)
        except BaseException:
            print(f'HARNESS-ERROR property={pid} replaying regression case\n'
                  + traceback.format_exc(), file=sys.stderr)
            return 2
        reg_n += 1
        for v in vs:
            if v.finding:
                known[v.finding] += 1
            else:
                viols.setdefault(v.bucket, v.export())

    all_floors = getattr(mod, 'FLOORS', {})
    if tier == 'thorough' and not getattr(mod, 'FLOORS_EXPLICIT', False):
        # the thorough tier generates roughly ten times the quick tier: demand five times its class counts
        floors = {k: 5 * v for k, v in all_floors.get('quick', {}).items()}
    else:
        floors = all_floors.get(tier, {})
    floor_fail = [f'{k}: {classes.get(k, 0)} < {n}' for k, n in floors.items() if classes.get(k, 0) < n]

    wall = time.time() - t0
    os.makedirs(os.path.join(ROOT, 'evidence'), exist_ok=True)
    outdir = os.path.join(ROOT, 'replays', 'out')
    vio_lines = []
    for b, v in sorted(viols.items()):
        os.makedirs(outdir, exist_ok=True)
        path = os.path.join(outdir, f'{pid}-{thash(b)}.json')
        with open(path, 'w') as fh:
            json.dump(dict(property=pid, bucket=b, message=v['message'], case=v['case']), fh,
                      indent=1, ensure_ascii=False, default=str)
        vio_lines.append((path, b, v['message']))

    coverage = dict(
        evaluations=evals,
        distinct_nontrivial=len(nt),
        rule=getattr(mod, 'RULE', ''),
        samples=samples[:8],
        classes=dict(sorted(classes.items())),
        excluded_by_finding=dict(excluded),
        known_findings_seen=dict(known),
        regression_cases_replayed=reg_n,
        buckets=[dict(bucket=b, message=m[:300]) for _, b, m in vio_lines],
        shards=nshards,
    )
    if exhaustive_arms:
        coverage['exhaustive_arms'] = exhaustive_arms
    if getattr(mod, 'EXHAUSTIVE', False):
        coverage['exhaustive'] = True
    coverage.update(extra)
    evidence = dict(
        property_id=pid, tier=tier, seed=seed, level='exploration', coverage=coverage,
        assumptions=list(getattr(mod, 'ASSUMPTIONS', [])) + notes,
        wall_s=round(wall, 2), violations=len(vio_lines),
    )
    with open(os.path.join(ROOT, 'evidence', f'{pid}.json'), 'w') as fh:
        json.dump(evidence, fh, indent=1, ensure_ascii=False, default=str)

    print(f'{pid} tier={tier} seed={seed}: evaluations={evals} distinct_nontrivial={len(nt)} '
          f'violations={len(vio_lines)} known_seen={sum(known.values())} wall={wall:.1f}s')
    for line in kf_lines:
        print(line)
    for path, b, m in vio_lines:
        print(f'VIOLATION property={pid} replay={path}')
        print(f'  bucket: {b}\n  {m[:600]}')
    if vio_lines:
        return 1
    # a quiet run only counts if the generators produced what the property names
    if floor_fail:
        print(f'HARNESS-ERROR property={pid} generator floor not met: ' + '; '.join(floor_fail), file=sys.stderr)
        return 2
    if evals < 1 or len(nt) < 2:
        print(f'HARNESS-ERROR property={pid} vacuous run (evaluations={evals}, nontrivial={len(nt)})', file=sys.stderr)
        return 2
    return 0


def run_replay(modname: str, pid: str, path: str) -> int:
    import importlib
    setup_repo()
    mod = importlib.import_module(modname)
    with open(path) as fh:
        doc = json.load(fh)
    case = doc.get('case', doc)
    if case.get('build_failed'):
        from . import model
        from .build import BuildFailed, build
        try:
            build(model.from_json(case['schema']))
            vs = []
        except BuildFailed as e:
            vs = [Viol(doc.get('bucket', f'{pid.lower()}:build-raised'), f'building the model through the public classes raised {type(e.exc).__name__}: {e.exc}', case)]
    else:
        vs = mod.replay(case)
    real = [v for v in vs if not v.finding]
    for v in vs:
        if v.finding:
            print(f'KNOWN-FINDING: property={pid} {v.finding} {v.message[:200]}')
    if real:
        print(f'VIOLATION property={pid} replay={path}')
        for v in real:
            print(f'  bucket: {v.bucket}\n  {v.message[:1000]}')
        return 1
    print(f'{pid} replay {path}: property held')
    return 0
