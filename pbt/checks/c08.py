"""C08 — parsing and rendering never fail with an internal error.

Oracle (EXCEPTION-CLASS whitelist): PyDBML.parse(text) returns, or raises pyparsing.ParseBaseException,
a class of pydbml.exceptions, or SyntaxError.  Whenever a Database is returned, .dbml/.sql of the
database and of every element evaluate without raising.  Generators: (a) token soup, (b) generated
valid documents with every feature on, (c) structure-aware mutation of (b) and of a small corpus,
(d) exhaustive short strings substituted into the free-text / identifier holes of template documents.
"""
from __future__ import annotations

import itertools
import signal

from hypothesis import strategies as st

from ..core import Ctx, Viol, hyp_run, thash
from ..lib import classify_parse, exc_key, render_everything

RULE = ('generated: token soup | generated documents (all features) | structure-aware mutations | '
        'exhaustive short strings (alphabet of 20 symbols, length<=2 quick / <=3 thorough) substituted '
        'into each hole of the template documents.  non-trivial: the input parses, or is rejected later '
        'than offset 0, or has >= 20 characters; distinct by sha1 of (text, allow_properties)')
ASSUMPTIONS = ['parenthesis nesting depth of generated inputs is bounded (<= 40), per the statement\'s '
               'recursion-limit proviso',
               'a case exceeding the 60 s watchdog is counted as inconclusive_slow, never as a violation']

ALPHABET = ['a', '.', '"', "'", '\\', '{', '}', '[', ']', '(', ')', ':', ',', '#', '-', ' ', '\n',
            '`', 'é', '﻿']

T2 = 'Table t {\n id int\n}\nTable u {\n id int\n}\n'
# (name, template, allow_properties)
HOLES = [
    ('whole', '§', False),
    ('bare_table_name', 'Table § {\n id int\n}\n', False),
    ('table_name', 'Table "§" {\n id int\n}\nTable u {\n id int [ref: > "§".id]\n}\nTableGroup g {\n "§"\n}\n', False),
    ('schema', 'Table "§".t {\n id int\n}\nRef: "§".t.id > "§".t.id\n', False),
    ('alias', 'Table t as "§" {\n id int\n}\nRef: "§".id < t.id\n', False),
    ('column_name', 'Table t {\n "§" int [pk]\n b int\n indexes {\n "§"\n ("§", b) [unique]\n }\n}\nRef: t."§" > t.b\n', False),
    ('column_type', 'Table t {\n id "§"\n}\n', False),
    ('bare_type', 'Table t {\n id §\n}\n', False),
    ('type_args', 'Table t {\n id int(§)\n}\n', False),
    ('default_str', "Table t {\n id int [default: '§']\n}\n", False),
    ('default_dq', 'Table t {\n id int [default: "§"]\n}\n', False),
    ('default_expr', 'Table t {\n id int [default: `§`]\n}\n', False),
    ('bare_default', 'Table t {\n id int [default: §]\n}\n', False),
    ('note_header', "Table t [note: '§'] {\n id int\n}\n", False),
    ('note_body', "Table t {\n id int\n Note: '§'\n}\n", False),
    ('note_block', "Table t {\n id int\n Note {\n '''§'''\n }\n}\n", False),
    ('column_note', 'Table t {\n id int [note: "§"]\n}\n', False),
    ('index_name', "Table t {\n id int\n indexes {\n id [name: '§', note: '§']\n `§`\n }\n}\n", False),
    ('index_name_triple', "Table t {\n id int\n indexes {\n id [name: '''§''', note: '''§''']\n (id, `§`) [name: \"§\"]\n }\n}\n", False),
    ('default_triple', "Table t {\n id int [default: '''§''', note: '''§''']\n}\n", False),
    ('enum_note_triple', "Enum e {\n a [note: '''§''']\n}\nTableGroup g [note: '''§'''] {\n}\n", False),
    ('project_value_triple', "Project p {\n k: '''§'''\n j: \"§\"\n}\n", False),
    ('comment_backslash', T2 + '// §\\\nRef: t.id > u.id // §\\\nTable v {\n id int // §\\\n x int\n}\n', False),
    ('enum', 'Enum "§" {\n "§" [note: \'§\']\n}\nTable t {\n id "§"\n}\n', False),
    ('enum_schema', 'Enum "§"."§" {\n x\n}\nTable t {\n id "§"."§"\n}\n', False),
    ('project', "Project \"§\" {\n k: '§'\n Note: '''§'''\n}\n", False),
    ('prop_value', "Table t {\n id int [k: '§']\n k2: '''§'''\n}\n", True),
    ('prop_key', "Table t {\n id int [\"§\": 'v']\n \"§\": 'v'\n}\n", True),
    ('ref_name', T2 + 'Ref "§": t.id > u.id\nRef "§" {\n u.id <> t.id [delete: cascade]\n}\n', False),
    ('sticky', "Note \"§\" {\n '''§'''\n}\n", False),
    ('group', T2 + "TableGroup \"§\" [note: '§'] {\n t\n u\n}\n", False),
    ('comment_line', T2 + '// §\nRef: t.id > u.id // §\n// §\nTable v {\n // §\n id int // §\n}\n', False),
    ('comment_block', T2 + '/* § */\nRef: t.id <> u.id\n/* § */\nEnum e {\n /* § */\n x\n}\n', False),
    ('settings', 'Table t {\n id int [§]\n}\n', False),
    ('body', 'Table t {\n id int\n§\n}\n', False),
    ('toplevel', T2 + '§\n' + 'Ref: t.id > u.id\n', False),
]

# positions that take a value: every kind of bare literal is tried there (a literal accepted where the model or a
# renderer expects text is how type confusion starts)
BARE_HOLES = [
    ('bare_project_value', 'Project p {\n k: §\n}\n', False),
    ('bare_table_prop', 'Table t {\n id int\n k: §\n}\n', True),
    ('bare_column_prop', 'Table t {\n id int [pk, k: §]\n}\n', True),
    ('bare_note', 'Table t {\n id int [note: §]\n Note: §\n}\n', False),
    ('bare_index_name', 'Table t {\n id int\n indexes {\n id [name: §, type: §]\n }\n}\n', False),
    ('bare_enum_note', 'Enum e {\n a [note: §]\n}\n', False),
    ('bare_sticky', 'Note n {\n §\n}\n', False),
    ('bare_group', T2 + 'TableGroup g [color: §, note: §] {\n t\n}\n', False),
    ('bare_header', 'Table t [headercolor: §] {\n id int\n}\n', False),
    ('bare_ref_settings', T2 + 'Ref: t.id > u.id [delete: §, update: §]\n', False),
    ('bare_default', 'Table t {\n id int [default: §]\n}\n', False),
    ('bare_project_name', 'Project § {\n}\nTableGroup § {\n}\nNote § {\n \'x\'\n}\nEnum § {\n §\n}\n', False),
]
BARE = ['1', '0', '007', '1.5', '0.0', 'true', 'false', 'True', 'null', 'NULL', '#fff', '#aabbcc', '`x`', '``', 'x', 'cascade', 'btree',
        "'s'", '"d"', "'''t'''", '-1', '1e5', '.5', '1.', 'pk', 'unique', 'not null', 'note', '(1)', '[1]', '{1}', '1, 2', "'a' 'b'", '',
        '1' * 4301, '9' * 5000 + '.5', '1' * 400 + '.25', '0' * 5000, '1.' + '0' * 5000, '\u0661\u0662', '\uff11']     # numbers beyond what int() / float() convert

TOKENS = [
    'Table', 'table', 'TABLE', 'Enum', 'enum', 'Ref', 'ref', 'ref:', 'Ref:', 'TableGroup', 'tablegroup',
    'Project', 'project', 'Note', 'note', 'note:', 'Note:', 'indexes', 'Indexes', 'as', 'pk', 'unique',
    'primary key', 'not null', 'null', 'increment', 'default:', 'headercolor:', 'color:', 'type:', 'name:',
    'update:', 'delete:', 'cascade', 'restrict', 'set null', 'set default', 'no action', 'btree', 'hash',
    'true', 'false', 'NULL', '{', '}', '[', ']', '(', ')', ':', ',', '.', '>', '<', '-', '<>', '#', '#fff',
    '#aabbcc', '#ff', "'", '"', "'''", '`', '\\', '//', '/*', '*/', '\n', '\n', '\n', ' ', ' ', '\t', '\r\n',
    '﻿', 'a', 'b', 't', 'u', 'id', 'int', 'varchar(255)', 'int[]', 's.t', 't.id', 'u.id', 's.t.id',
    '"a b"', '"a.b"', '"a.b.c"', '"{x}"', '"{0}"', '""', "''", "'x'", "'{x}'", "'''m\nl'''", '`now()`', '``',
    '0', '1', '007', '1.5', '1.', '.5', '9' * 30, '-1', '1e5', '(id, x)', '(', ')', '((', '))', '{0}', '{x}',
    '{', '}', 'é', 'ß', '日本', '\x00', '\x0b', ' ', ' ', '  ',
]

CORPUS = [
    T2 + 'Ref r1: t.id > u.id [delete: cascade, update: no action]\n',
    "Project p {\n database_type: 'PostgreSQL'\n Note: 'x'\n}\n" + T2,
    "Enum s.e {\n a [note: 'n']\n b // c\n}\nTable s.t as tt [headercolor: #abc, note: 'tn'] {\n"
    " id int [pk, increment]\n e s.e [not null, default: 'a']\n n varchar(10) [unique, default: `now()`, note: '''m\n l''']\n"
    " f float [default: 1.5]\n b bool [default: true]\n z int [default: null, ref: > s.t.id]\n\n"
    " Note {\n  'body'\n }\n indexes {\n  (id, e) [pk]\n  n [unique, name: 'ix', type: hash, note: 'x']\n  `lower(n)`\n }\n}\n"
    "TableGroup g [color: #123456] {\n s.t\n}\nNote sn {\n 'sticky'\n}\n",
    T2 + 'Table v {\n a int\n b int\n}\nTable w {\n a int\n b int\n}\nRef {\n v.(a, b) <> w.(a, b)\n}\nRef: t.id < u.id\nRef: u.id - t.id\n',
]


class _Slow(Exception):
    pass


def _alarm(signum, frame):
    raise _Slow()


def constructor_route(case):
    """The same text through the PyDBML(...) constructor: same exception whitelist."""
    from pydbml import PyDBML
    from ..lib import allowed_parse_exceptions
    text = case['text']
    kw = {'allow_properties': True} if case.get('allow_properties') else {}
    try:
        PyDBML(text, **kw)
    except allowed_parse_exceptions():
        return []
    except RecursionError:
        return []
    except Exception as e:  # noqa
        return [Viol(f'constructor:{exc_key(e)}', f'PyDBML(text) escaped with {type(e).__name__}: {e}', dict(case, route='constructor'), size=len(text))]
    return []


LONG = ['// ' + 'x' * 300, '/* ' + 'y' * 5000 + ' */', 'z' * 300, 'a/' * 200 + 'b' * 300, 'Table ' + 't' * 400 + ' {', '"' + 'q' * 1000 + '"',
        '// ' + 'é' * 200, 'x' * 70000, '/' + 'd' * 260 + '/schema.dbml', ' ' * 5000, 'Note n { \'' + 'n' * 3000 + '\' }']


def evaluate(case, ctx: Ctx = None):
    text = case['text']
    kw = {'allow_properties': True} if case.get('allow_properties') else {}
    viols = []
    if case.get('route') == 'constructor' or (ctx is not None and case.get('gen', '').startswith(('soup', 'long', 'hole:whole'))):
        viols += constructor_route(case)
    signal.signal(signal.SIGALRM, _alarm)
    signal.alarm(60)
    try:
        kind, res = classify_parse(text, **kw)
        pos = 0
        if kind == 'crash':
            viols.append(Viol(f'parse:{exc_key(res)}', f'parsing escaped with {type(res).__name__}: {res}',
                              case, size=len(text)))
        elif kind == 'recursion':
            depth = max(text.count('('), text.count('['), text.count('{'))
            if depth < 40:
                viols.append(Viol(f'parse:{exc_key(res)}', f'RecursionError below the nesting cap: {res}',
                                  case, size=len(text)))
        elif kind == 'db':
            for what, e in render_everything(res):
                w = what.split('.')[-1]
                viols.append(Viol(f'render.{w}:{exc_key(e)}',
                                  f'{what} raised {type(e).__name__}: {e}', case, size=len(text)))
        else:
            pos = getattr(res, 'loc', 1) or 0
    except _Slow:
        kind, pos = 'slow', 0
        if ctx is not None:
            ctx.extra['inconclusive_slow'] = ctx.extra.get('inconclusive_slow', 0) + 1
    finally:
        signal.alarm(0)
    if ctx is not None:
        nt = kind == 'db' or pos > 0 or len(text) >= 20
        sample = None
        if nt and len(ctx.samples) < ctx.MAX_SAMPLES and len(text) < 400:
            sample = dict(text=text, outcome=kind)
        ctx.record(thash(text + str(bool(kw))), nt, (f'outcome:{kind}', f'gen:{case.get("gen", "?")}'), sample)
    return viols


def replay(case):
    return evaluate(case)


# -- generators ---------------------------------------------------------------------------------

def soup():
    tok = st.sampled_from(TOKENS)
    return st.lists(tok, min_size=1, max_size=40).map(lambda ts: ''.join(
        t if (t.isspace() or i == 0) else t for i, t in enumerate(ts)))


def spaced_soup():
    tok = st.sampled_from(TOKENS)
    return st.lists(tok, min_size=1, max_size=40).map(' '.join)


@st.composite
def mutated(draw, base_texts):
    text = draw(base_texts)
    n = draw(st.integers(1, 3))
    for _ in range(n):
        if not text:
            break
        op = draw(st.sampled_from(['del_range', 'dup_line', 'swap_lines', 'ins_tok', 'trunc', 'del_char',
                                   'del_line', 'ins_tok_line']))
        lines = text.split('\n')
        if op == 'del_range':
            i = draw(st.integers(0, len(text) - 1))
            j = min(len(text), i + draw(st.integers(1, 12)))
            text = text[:i] + text[j:]
        elif op == 'del_char':
            i = draw(st.integers(0, len(text) - 1))
            text = text[:i] + text[i + 1:]
        elif op == 'trunc':
            text = text[:draw(st.integers(0, len(text)))]
        elif op == 'ins_tok':
            i = draw(st.integers(0, len(text)))
            text = text[:i] + draw(st.sampled_from(TOKENS)) + text[i:]
        elif op == 'ins_tok_line':
            i = draw(st.integers(0, len(lines)))
            lines.insert(i, draw(st.sampled_from(TOKENS)))
            text = '\n'.join(lines)
        elif op == 'dup_line':
            i = draw(st.integers(0, len(lines) - 1))
            lines.insert(i, lines[i])
            text = '\n'.join(lines)
        elif op == 'del_line':
            i = draw(st.integers(0, len(lines) - 1))
            del lines[i]
            text = '\n'.join(lines)
        elif op == 'swap_lines' and len(lines) > 1:
            i = draw(st.integers(0, len(lines) - 1))
            j = draw(st.integers(0, len(lines) - 1))
            lines[i], lines[j] = lines[j], lines[i]
            text = '\n'.join(lines)
    return text


def _generated_docs():
    """Valid documents from the shared generator with every feature on (if it is available)."""
    from .. import gen, surface
    return gen.documents(features=gen.ALL_FEATURES).map(lambda d: d[1])


def shard(ctx: Ctx):
    quick = ctx.tier == 'quick'
    # (d) exhaustive holes, split over shards
    maxlen = 2 if quick else 3
    strings = ['']
    for n in range(1, maxlen + 1):
        strings.extend(''.join(p) for p in itertools.product(ALPHABET, repeat=n))
    jobs = [(s, h) for s in strings for h in HOLES]
    for k, (s, (hname, tpl, props)) in enumerate(jobs):
        if k % ctx.nshards != ctx.shard:
            continue
        case = dict(text=tpl.replace('§', s), allow_properties=props, gen=f'hole:{hname}')
        ctx.add(evaluate(case, ctx))
    ctx.exhaustive_arms.append(f'holes: all strings of length <= {maxlen} over {len(ALPHABET)} symbols x {len(HOLES)} holes')
    for k, (b, (hname, tpl, props)) in enumerate((b, h) for b in BARE for h in BARE_HOLES):
        if k % ctx.nshards == ctx.shard:
            ctx.add(evaluate(dict(text=tpl.replace('§', b), allow_properties=props, gen=f'bare:{hname}'), ctx))
    ctx.exhaustive_arms.append(f'bare literals: {len(BARE)} literals x {len(BARE_HOLES)} value positions')

    for k, t in enumerate(LONG):
        if k % ctx.nshards == ctx.shard:
            ctx.add(evaluate(dict(text=t, gen='long'), ctx))
    n = (250 if quick else 2500)
    both = st.one_of(soup(), spaced_soup())
    hyp_run(ctx, 'soup', both, lambda t: evaluate(dict(text=t, gen='soup'), ctx), n)
    props = st.booleans()
    hyp_run(ctx, 'mut-corpus', st.tuples(mutated(st.sampled_from(CORPUS)), props),
            lambda tp: evaluate(dict(text=tp[0], allow_properties=tp[1], gen='mut-corpus'), ctx), n // 2)
    try:
        docs = _generated_docs()
    except ImportError:
        docs = None
    if docs is not None:
        hyp_run(ctx, 'docs', st.tuples(docs, props),
                lambda tp: evaluate(dict(text=tp[0], allow_properties=tp[1], gen='docs'), ctx), n // 2)
        hyp_run(ctx, 'mut-docs', st.tuples(mutated(docs), props),
                lambda tp: evaluate(dict(text=tp[0], allow_properties=tp[1], gen='mut-docs'), ctx), n // 2)
