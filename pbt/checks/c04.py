"""C04 — every relationship becomes exactly one correctly directed FOREIGN KEY in SQL.

Oracle MODEL via the independent SQL reader: the expected multiset of foreign keys (holder, columns
in order, target, referenced columns in order, constraint name, actions, placement inline|ALTER) is
computed from the abstract references; many-to-many references are checked through their join table.
"""
from __future__ import annotations

from hypothesis import strategies as st

from .. import gen, model
from ..core import Ctx, Viol, hyp_run, thash
from ..model import ARef
from ..sqlcheck import check_c04
from ..sqlread import parse as sqlparse
from . import sqlcommon as C
from .c01 import classify

RULE = ('schemas with 0-8 references over all kinds x {inline, standalone} x {single, composite} x '
        '{self, cross-table, cross-schema} x name x actions, as parsed and as API-built databases (the latter '
        'also with inline composite references); .sql read back and compared with the foreign keys computed '
        'from the abstract references. non-trivial: >= 2 references of different kinds, or an inline "<", or a '
        'composite or many-to-many reference; distinct by sha1 of the SQL text')
ASSUMPTIONS = ['names and actions of the two foreign keys of a many-to-many join table are not constrained (statement is silent)']
FLOORS = {'quick': {'same_name_two_schemas': 100, 'inline_lt': 10, 'composite_ref': 10, 'm2m': 10, 'named_ref': 10, 'actions': 10, 'cross_schema_ref': 10,
                    'inline_composite_api': 5},
          'thorough': {'inline_lt': 100, 'composite_ref': 100, 'm2m': 100, 'named_ref': 100, 'actions': 100,
                       'cross_schema_ref': 100, 'inline_composite_api': 50}}


def ref_classes(s):
    refs = s.all_refs()
    cls = []
    if any(r.inline and r.kind == '<' for r in refs):
        cls.append('inline_lt')
    if any(r.name for r in refs):
        cls.append('named_ref')
    if any(r.on_update or r.on_delete for r in refs):
        cls.append('actions')
    if any(r.t1[0] != r.t2[0] for r in refs):
        cls.append('cross_schema_ref')
    if any(r.inline and len(r.c1) > 1 for r in refs):
        cls.append('inline_composite_api')
    if any(r.t1 == r.t2 for r in refs):
        cls.append('self_ref')
    return cls


def nontrivial(s) -> bool:
    refs = s.all_refs()
    return len({r.kind for r in refs}) >= 2 or any(
        (r.inline and r.kind == '<') or len(r.c1) > 1 or r.kind == '<>' for r in refs)


def check_db(s, db, case):
    sql, v = C.render_sql(db, case)
    if v:
        return [v], None
    case = dict(case, sql=sql)
    p = sqlparse(sql)
    viols = [Viol(f'c04:{key}', msg, case, size=len(sql)) for key, msg in check_c04(s, p)]
    for u in p.unreadable:
        if 'FOREIGN KEY' in u:
            viols.append(Viol('c04:unreadable', f'foreign key statement of no documented shape: {u[:200]!r}', case, size=len(sql)))
    for t in p.tables:
        for o in t.other:
            if 'FOREIGN KEY' in o:
                viols.append(Viol('c04:unreadable', f'foreign key clause of no documented shape in {t.raw_name}: {o[:200]!r}', case, size=len(sql)))
    return viols, sql


def evaluate(s, style, ctx: Ctx = None, gen_name='?', script=()):
    viols = []
    for how, db, text in C.databases(s, style, ctx):
        case = dict(schema=model.to_json(s), how=how, text=text, gen=gen_name)
        vs, sql = check_db(s, db, case)
        viols += vs
        if script and not vs:
            # second phase: the database just rendered is edited in place and rendered again
            try:
                s2 = C.edited(s, db, script)
            except Exception as e:  # noqa
                s2 = None
                viols.append(Viol(f'c04:edit-raised:{type(e).__name__}', f'in-place edit raised {type(e).__name__}: {e}', dict(case, script=[list(x) for x in script])))
            if s2 is not None:
                case2 = dict(case, script=[list(x) for x in script], phase='edited')
                vs2, _ = check_db(s2, db, case2)
                viols += [Viol(v.bucket + ':after-edit', 'after render, in-place edits and a second render: ' + v.message, case2, size=v.size) for v in vs2]
                if ctx is not None:
                    ctx.record(thash('edited' + how + model.to_json(s2).__repr__()), nontrivial(s2), ['phase:edited', f'how:{how}'])
        if ctx is not None:
            nt = nontrivial(s)
            sample = dict(construction=how, sql=sql) if nt and sql and len(sql) < 800 and len(ctx.samples) < ctx.MAX_SAMPLES else None
            ctx.record(thash(how + (sql or '')), nt, classify(s, None) + ref_classes(s) + [f'how:{how}', f'gen:{gen_name}'], sample)
    return viols


def replay(case):
    from pydbml import PyDBML
    from ..build import build
    s = model.from_json(case['schema'])
    if case.get('how') == 'parsed':
        db = PyDBML.parse(case['text'], allow_properties=True) if s.allow_properties else PyDBML.parse(case['text'])
    else:
        db = build(s)
    base = {k: v for k, v in case.items() if k != 'sql'}
    if case.get('phase') == 'edited':
        db.sql
        s2 = C.edited(s, db, [tuple(x) for x in case['script']])
        return check_db(s2, db, base)[0]
    return check_db(s, db, base)[0]


@st.composite
def api_inline_composite(draw, feats, sizes):
    """API-built only: schemas that additionally carry inline composite references (SQL can render
    them, DBML cannot spell them)."""
    s = draw(gen.schemas(feats, sizes, min_tables=1))
    wide = [t for t in s.tables if len(t.columns) >= 2]
    for _ in range(draw(st.integers(1, 3))):
        if not wide:
            break
        t1, t2 = draw(st.sampled_from(wide)), draw(st.sampled_from(wide))
        k = draw(st.integers(2, min(3, len(t1.columns), len(t2.columns))))
        c1 = draw(st.lists(st.sampled_from([c.name for c in t1.columns]), min_size=k, max_size=k, unique=True))
        c2 = draw(st.lists(st.sampled_from([c.name for c in t2.columns]), min_size=k, max_size=k, unique=True))
        r = ARef(draw(st.sampled_from(['>', '<', '-'])), t1.key, c1, t2.key, c2, inline=True,
                 name=draw(st.none() | st.just(f'cfk{len(s.refs)}')),
                 on_delete=draw(st.none() | st.sampled_from(gen.ACTIONS)))
        sig = lambda x: (x.kind, x.t1, tuple(x.c1), x.t2, tuple(x.c2), x.name, x.on_update, x.on_delete)
        if any(sig(x) == sig(r) for x in s.all_refs()):
            continue
        s.layout = list(s.get_layout())
        s.refs.append(r)
        s.layout.append(('ref', len(s.refs) - 1))
    return s, None


def shard(ctx: Ctx):
    quick = ctx.tier == 'quick'
    sizes = gen.QUICK if quick else gen.THOROUGH
    sizes = gen.Sizes(tables=sizes.tables, columns=sizes.columns, indexes=1, enums=1, items=2, refs=8, groups=0, stickies=0, props=1)
    n = 110 if quick else 1200
    hyp_run(ctx, 'parsed+built', st.tuples(C.cases(C.parse_features(), sizes, min_tables=1), C.edit_scripts()),
            lambda c: evaluate(c[0][0], c[0][1], ctx, 'parse-domain', c[1]), n)
    hyp_run(ctx, 'built-only', C.cases(C.built_features(), sizes, with_style=False, min_tables=1),
            lambda c: evaluate(c[0], None, ctx, 'api-domain'), n // 2)
    hyp_run(ctx, 'inline-composite', api_inline_composite(C.built_features(), sizes),
            lambda c: evaluate(c[0], None, ctx, 'api-inline-composite'), n // 2)
