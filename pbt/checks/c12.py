"""C12 — all documented ways of supplying the source give the same database.

DIFFERENTIAL oracle: the same text through PyDBML(str), PyDBML(Path), PyDBML(open text file),
PyDBML.parse(str), PyDBML().parse(str), PyDBML.parse_file(path string | Path | open file), each with
and without a leading UTF-8 byte-order mark, must give identical content and identical renderings;
options (arbitrary properties, renderer classes) must take effect identically on every route that
accepts them; any other source type makes the constructor raise TypeError.
"""
from __future__ import annotations

import io
import os
import shutil
import tempfile
from pathlib import Path

from hypothesis import strategies as st

from .. import gen, model
from ..core import Ctx, Viol, hyp_run, thash
from ..extract import extract
from .c01 import strict_features

RULE = ('generated documents (non-ASCII names/notes included) x BOM {absent, present} x 8 routes x options '
        '{default, allow_properties, custom renderer classes}; plus non-source types for the constructor. '
        'non-trivial: document with non-ASCII content, or BOM, or non-default options (every case has the BOM arm); '
        'distinct by sha1 of (text, options)')
ASSUMPTIONS = ['files are written as UTF-8 and open text files are opened with encoding="utf8" (a BOM then reaches the library as U+FEFF)']
BOM = '﻿'


def _renderers():
    from pydbml.renderer.base import BaseRenderer

    class MarkSQL(BaseRenderer):
        model_renderers = {}

        @classmethod
        def render_db(cls, db):
            return 'MARK-SQL'

    class MarkDBML(BaseRenderer):
        model_renderers = {}

        @classmethod
        def render_db(cls, db):
            return 'MARK-DBML'
    return MarkSQL, MarkDBML


def routes(text, tmpdir, opts, tag):
    """name -> thunk"""
    from pydbml import PyDBML
    path = os.path.join(tmpdir, f'doc_{tag}.dbml')
    with open(path, 'w', encoding='utf8', newline='') as fh:
        fh.write(text)

    def via_file(fn):
        def run():
            with open(path, encoding='utf8', newline='') as fh:
                return fn(fh)
        return run
    r = {
        'PyDBML(str)': lambda: PyDBML(text, **opts),
        'PyDBML(Path)': lambda: PyDBML(Path(path), **opts),
        'PyDBML(file)': via_file(lambda fh: PyDBML(fh, **opts)),
        'PyDBML.parse(str)': lambda: PyDBML.parse(text, **opts),
        'PyDBML().parse(str)': lambda: PyDBML().parse(text, **opts),
    }
    if not opts:
        r.update({
            'parse_file(str)': lambda: PyDBML.parse_file(path),
            'parse_file(Path)': lambda: PyDBML.parse_file(Path(path)),
            'parse_file(file)': via_file(lambda fh: PyDBML.parse_file(fh)),
        })
    return r


def observe(thunk):
    try:
        db = thunk()
    except Exception as e:  # noqa
        return ('raise', type(e).__name__), None
    if type(db).__name__ != 'Database':
        return ('not-a-database', type(db).__name__), None
    try:
        return ('db', extract(db), db.dbml, db.sql, bool(db.allow_properties)), db
    except Exception as e:  # noqa
        return ('render-raise', type(e).__name__), db


def check_text(text, optname, case, tmpdir):
    viols = []
    MarkSQL, MarkDBML = _renderers()
    opts = {'default': {}, 'props': {'allow_properties': True},
            'renderers': {'sql_renderer': MarkSQL, 'dbml_renderer': MarkDBML},
            'all': {'allow_properties': True, 'sql_renderer': MarkSQL, 'dbml_renderer': MarkDBML}}[optname]
    ref = None
    kept = []

    def one_pass(rnd):
        nonlocal ref
        # a text that already starts with U+FEFF is only compared route against route as it is (one more mark in front
        # would make it a different, malformed document)
        for bom in ((False,) if text.startswith(BOM) else (False, True)):
            t = (BOM + text) if bom else text
            for name, thunk in routes(t, tmpdir, opts, f'{int(bom)}').items():
                obs, db = observe(thunk)
                label = f'{name}{" +BOM" if bom else ""} [{optname}]' + (' (second request, after the first results were edited)' if rnd == 2 else '')
                if ref is None:
                    ref = (label, obs)
                elif obs != ref[1]:
                    what = 'outcome'
                    if obs[0] == 'db' and ref[1][0] == 'db':
                        what = ['', 'content', '.dbml', '.sql', 'allow_properties'][[i for i in range(1, 5) if obs[i] != ref[1][i]][0]]
                    viols.append(Viol(f'c12:differs:{name}:{"bom" if bom else "nobom"}:{what}' + (':second-request' if rnd == 2 else ''),
                                      f'{label} differs from {ref[0]} in {what}: {str(obs)[:200]} vs {str(ref[1])[:200]}', case, size=len(text)))
                if db is not None:
                    if rnd == 1:
                        kept.append(db)
                    if 'sql_renderer' in opts and (db.sql_renderer is not MarkSQL or db.dbml_renderer is not MarkDBML):
                        viols.append(Viol(f'c12:renderer-option:{name}', f'{label}: renderer classes were not installed', case, size=len(text)))
                    if 'sql_renderer' in opts and obs[0] == 'db' and (obs[2] != 'MARK-DBML' or obs[3] != 'MARK-SQL'):
                        viols.append(Viol(f'c12:renderer-option:{name}', f'{label}: database renderings do not come from the configured classes', case, size=len(text)))
                    if bool(db.allow_properties) != bool(opts.get('allow_properties')):
                        viols.append(Viol(f'c12:props-option:{name}', f'{label}: allow_properties={db.allow_properties}', case, size=len(text)))

    one_pass(1)
    if kept and not viols:
        # the caller edits what it got; asking again for the same text must give the same database on every route
        from .c11 import edit
        for k, db in enumerate(kept):
            try:
                edit(db, k)
            except Exception:  # noqa
                pass
        one_pass(2)
    return viols


def wrong_types(tmpdir):
    from pydbml import PyDBML
    path = os.path.join(tmpdir, 'bin.dbml')
    with open(path, 'wb') as fh:
        fh.write(b'Table t {\n id int\n}\n')
    out = []
    binf = open(path, 'rb')
    try:
        for label, src in [('bytes', b'Table t {\n id int\n}\n'), ('int', 5), ('list', ['Table t {', 'id int', '}']),
                           ('StringIO', io.StringIO('Table t {\n id int\n}\n')), ('BytesIO', io.BytesIO(b'x')),
                           ('binary file', binf), ('object', object()), ('float', 1.5), ('tuple', ('a',)), ('dict', {}),
                           ('bytearray', bytearray(b'abc'))]:
            try:
                r = PyDBML(src)
                out.append((label, f'returned {type(r).__name__}'))
            except TypeError:
                pass
            except Exception as e:  # noqa
                out.append((label, f'raised {type(e).__name__}: {e}'))
    finally:
        binf.close()
    return out


def evaluate(c, ctx: Ctx, tmpdir):
    s, text, optname = c
    if s.allow_properties and optname in ('default', 'renderers'):
        optname = 'props' if optname == 'default' else 'all'
    case = dict(text=text, options=optname)
    viols = check_text(text, optname, case, tmpdir)
    nonascii = any(ord(ch) > 127 for ch in text)
    cls = [f'opt:{optname}'] + (['non_ascii'] if nonascii else [])
    sample = dict(options=optname, text=text) if len(text) < 300 and len(ctx.samples) < ctx.MAX_SAMPLES else None
    ctx.record(thash(text + optname), True, cls, sample)
    return viols


def replay(case):
    tmpdir = tempfile.mkdtemp(prefix='pbt-c12-')
    try:
        if case.get('locale_arm'):
            return [Viol(f'c12:locale:{n}', f'{n} depends on the process default encoding: {v}', case) for n, v in ascii_locale_arm(tmpdir)[0]]
        if case.get('wrong_type'):
            return [Viol(f'c12:wrong-type:{l}', f'PyDBML({l}) {m}, expected TypeError', case) for l, m in wrong_types(tmpdir)]
        return check_text(case['text'], case['options'], case, tmpdir)
    finally:
        shutil.rmtree(tmpdir, ignore_errors=True)


_LOCALE_SUB = r"""
import json, sys
sys.path.insert(0, %r); sys.path.insert(0, %r)
from pathlib import Path
from pydbml import PyDBML
from pbt.extract import extract
path = sys.argv[1]
text = open(path, encoding='utf8').read()
out = {}
for name, thunk in [('PyDBML(str)', lambda: PyDBML(text)), ('PyDBML(Path)', lambda: PyDBML(Path(path))),
                    ('parse_file(str)', lambda: PyDBML.parse_file(path)), ('parse_file(Path)', lambda: PyDBML.parse_file(Path(path)))]:
    try:
        out[name] = extract(thunk())
    except Exception as e:
        out[name] = 'raise ' + type(e).__name__
print(json.dumps(out))
"""


def ascii_locale_arm(tmpdir):
    """The same non-ASCII file read in a process whose default text encoding is ASCII: the file routes
    must not depend on the locale (they are documented to read UTF-8)."""
    import json
    import subprocess
    import sys
    from ..core import REPO, ROOT
    text = 'Table "caf\u00e9" {\n  "\u65e5\u672c" int [note: \'\u00fcn\u00ef \u2713\']\n}\n'
    path = os.path.join(tmpdir, 'nonascii.dbml')
    with open(path, 'w', encoding='utf8') as fh:
        fh.write(text)
    env = dict(os.environ, PYTHONUTF8='0', LC_ALL='C', LANG='C', PYTHONCOERCECLOCALE='0', PYTHONIOENCODING='utf8')
    r = subprocess.run([sys.executable, '-c', _LOCALE_SUB % (os.path.abspath(REPO), ROOT), path], capture_output=True,
                       text=True, env=env, encoding='utf8')
    if r.returncode != 0:
        raise RuntimeError('locale helper failed: ' + r.stderr[-500:])
    out = json.loads(r.stdout)
    ref = out['PyDBML(str)']
    return [(name, str(v)[:200]) for name, v in out.items() if v != ref], text


FIXED = ['', '\n', '// only a comment', 'Table t {\n id int\n}', 'Table "é" {\n "日本" int [note: \'ünï\']\n}\n',
         'Table t {\n id int [k: \'v\']\n}\n', 'Table t {\n id\n}\n', 'Table t {\r\n id int\r\n}\r\n',
         # characters str.splitlines() treats as line breaks although DBML and text files do not
         "Table t {\n id int [note: 'a\u2028b']\n}\n", "Table t {\n id int\n Note: '''x\u2029y\x0bz\x0cw\x1cv\x85u'''\n}\n",
         "// c\u2028omment\nTable t {\n id int // tr\x85ail\n}\n", "Table \"a\x1db\" {\n id int [default: 'q\x1er']\n}\nNote n {\n 'st\u2028icky'\n}\n"]


def shard(ctx: Ctx):
    quick = ctx.tier == 'quick'
    tmpdir = tempfile.mkdtemp(prefix='pbt-c12-')
    try:
        if ctx.shard == 0:
            for l, m in wrong_types(tmpdir):
                ctx.add([Viol(f'c12:wrong-type:{l}', f'PyDBML({l}) {m}, expected TypeError', dict(wrong_type=l))])
            ctx.record('wrong-types', True, ['wrong_types'])
            bad, text = ascii_locale_arm(tmpdir)
            for name, v in bad:
                ctx.add([Viol(f'c12:locale:{name}', f'{name} of a UTF-8 file differs from PyDBML(str) when the process default '
                                                    f'encoding is ASCII: {v}', dict(locale_arm=True, text=text))])
            ctx.record('ascii-locale', True, ['ascii_locale'])
        for k, t in enumerate(FIXED):
            if k % ctx.nshards == ctx.shard:
                for opt in ('default', 'props', 'renderers'):
                    case = dict(text=t, options=opt)
                    ctx.add(check_text(t, opt, case, tmpdir))
                    ctx.record(thash(t + opt), True, [f'opt:{opt}', 'fixed'])
        sizes = gen.Sizes(tables=3, columns=3, indexes=1, enums=1, items=2, refs=3, groups=1, stickies=1, props=2)

        @st.composite
        def cases(draw):
            s, text, _ = draw(gen.documents(strict_features(), sizes))
            return s, text, draw(st.sampled_from(['default', 'default', 'props', 'renderers', 'all']))

        hyp_run(ctx, 'routes', cases(), lambda c: evaluate(c, ctx, tmpdir), 40 if quick else 400)
        # rejected documents too: a route that tolerates what the others reject is a disagreement
        from . import c07
        from ..surface import render

        @st.composite
        def bad_cases(draw):
            s_, text0, f = draw(c07.cases(strict_features(), sizes))[:3]
            text = render(f[1], '\n', True) if f else text0
            text = BOM * draw(st.sampled_from([0, 0, 0, 0, 1, 2, 3])) + text      # the same text, marks and all, on every route
            return s_, text, 'props' if s_.allow_properties else 'default'

        hyp_run(ctx, 'routes-malformed', bad_cases(), lambda c: evaluate(c, ctx, tmpdir), 15 if quick else 200)
    finally:
        shutil.rmtree(tmpdir, ignore_errors=True)
