"""C16 — element and database renderings agree and use the configured renderers.

Configurations: default renderers, or a freshly generated partial renderer (a BaseRenderer subclass with
handlers for a Hypothesis-chosen subset of model types, each returning a unique marker), installed through
the Database constructor (API-built) or the parser arguments (parsed).
custom : x.sql / x.dbml == marker if the class handles type(x) else '' for attached tables, enums, references,
         groups, project, sticky notes and columns; db.sql / db.dbml come from the class's render_db;
         deleted (detached) elements render through the defaults again (differential vs a default twin).
default: the text of each table, enum, non-inline reference, group, sticky note and the project occurs in the
         database text verbatim, exactly once, outside any other element's span (and nothing else but separators).
purity : evaluating any rendering any number of times in any order leaves content and renderings unchanged.
"""
from __future__ import annotations

from hypothesis import strategies as st

from .. import gen, model
from ..build import build
from ..core import Ctx, Viol, hyp_run, thash
from ..extract import extract
from ..surface import write
from . import c01, c02
from . import sqlcommon as C

RULE = ('schemas x {parsed, API-built} x renderer configuration {default, generated partial renderer over a random '
        'subset of model types} x a shuffled evaluation schedule with repeats. non-trivial: partial renderer with >= 1 '
        'handled and >= 1 unhandled type, or schedule length >= 6; distinct by sha1 of (document, configuration, schedule)')
ASSUMPTIONS = ['Index, Note, EnumItem and Expression have no route to the database and are not listed by the statement: nothing is asserted about which renderer they use',
               'a detached Table cannot render by design (C17); detached rendering is checked on enums, references, groups, project, sticky notes and columns']
FLOORS = {'quick': {'cfg:custom': 100, 'cfg:default': 100, 'how:parsed': 80, 'how:built': 80, 'detached': 50},
          'thorough': {'cfg:custom': 2000, 'cfg:default': 2000, 'how:parsed': 1500, 'how:built': 1500, 'detached': 1000}}
TYPE_NAMES = ['Table', 'Column', 'Enum', 'Reference', 'TableGroup', 'Project', 'StickyNote', 'Index', 'Note', 'EnumItem']


def marker(kind, m):
    return f'<{kind}:{type(m).__name__}:{getattr(m, "name", None)!r}>'


def make_renderer(kind, handled):
    import pydbml.classes as K
    from pydbml.renderer.base import BaseRenderer

    class Partial(BaseRenderer):
        model_renderers = {}

        @classmethod
        def render_db(cls, db):
            return f'<{kind}-db:{len(db.tables)}>'
    for name in handled:
        Partial.model_renderers[getattr(K, name)] = (lambda m, kind=kind: marker(kind, m))
    return Partial


def top_elements(db):
    out = [('Table', t) for t in db.tables] + [('Enum', e) for e in db.enums] + [('Reference', r) for r in db.refs]
    out += [('TableGroup', g) for g in db.table_groups] + [('StickyNote', n) for n in db.sticky_notes]
    if db.project is not None:
        out.append(('Project', db.project))
    out += [('Column', c) for t in db.tables for c in t.columns]
    return out


def has(obj, what):
    return getattr(type(obj), what, None) is not None


ROUTE = ['parse']      # set per case: parse | str | path | file


def get_db(s, how, style, **kw):
    import os
    import tempfile
    from pathlib import Path
    from pydbml import PyDBML
    if how == 'parsed':
        text, _ = write(s, style)
        route = ROUTE[0]
        if route == 'parse':
            return PyDBML.parse(text, allow_properties=s.allow_properties, **kw)
        if route == 'str':
            return PyDBML(text, allow_properties=s.allow_properties, **kw)
        fd, path = tempfile.mkstemp(prefix='pbt-c16-', suffix='.dbml')
        try:
            with os.fdopen(fd, 'w', encoding='utf8', newline='') as fh:
                fh.write(text)
            if route == 'path':
                return PyDBML(Path(path), allow_properties=s.allow_properties, **kw)
            with open(path, encoding='utf8', newline='') as fh:
                return PyDBML(fh, allow_properties=s.allow_properties, **kw)
        finally:
            os.unlink(path)
    return build(s, **kw)


def check_custom(s, how, style, handled_sql, handled_dbml, schedule, case):
    viols = []
    R_sql, R_dbml = make_renderer('sql', handled_sql), make_renderer('dbml', handled_dbml)
    db = get_db(s, how, style, sql_renderer=R_sql, dbml_renderer=R_dbml)
    if db.sql_renderer is not R_sql or db.dbml_renderer is not R_dbml:
        viols.append(Viol(f'c16:custom:not-installed:{how}', f'the configured renderer classes are not installed on the database ({how})', case))
        return viols
    els = top_elements(db)
    before = extract(db)

    def expect(kind, name, el):
        handled = handled_sql if kind == 'sql' else handled_dbml
        return marker(kind, el) if name in handled else ''
    plan = [(i, w) for i, w in schedule if i < len(els)] + [(i, w) for i in range(len(els)) for w in ('sql', 'dbml')]
    for i, what in plan:
        name, el = els[i]
        if not has(el, what):
            continue
        try:
            got = getattr(el, what)
        except Exception as e:  # noqa
            viols.append(Viol(f'c16:custom:raise:{name}.{what}', f'{name}.{what} raised {type(e).__name__}: {e} with a partial renderer '
                              f'({"handled" if name in (handled_sql if what == "sql" else handled_dbml) else "unhandled"} type)', case))
            continue
        if got != expect(what, name, el):
            viols.append(Viol(f'c16:custom:{name}.{what}', f'{name}.{what} is {got[:80]!r}, expected {expect(what, name, el)!r} from the configured renderer', case))
    for what, R in (('sql', R_sql), ('dbml', R_dbml)):
        try:
            got = getattr(db, what)
        except Exception as e:  # noqa
            viols.append(Viol(f'c16:custom:raise:db.{what}', f'db.{what} raised {type(e).__name__}: {e}', case))
            continue
        if got != f'<{what}-db:{len(db.tables)}>':
            viols.append(Viol(f'c16:custom:db.{what}', f'db.{what} does not come from the configured class: {got[:80]!r}', case))
    if extract(db) != before:
        viols.append(Viol('c16:purity:custom', 'rendering changed the model', case))
    # the configured renderers stay in charge whatever the database currently holds: remove every table
    if db.tables:
        for t in list(db.tables):
            try:
                db.delete(t)
            except Exception as e:  # noqa
                viols.append(Viol('c16:custom:delete-table', f'deleting a table raised {type(e).__name__}: {e}', case))
        for name, el in [(n, e) for n, e in els if n in ('Enum', 'Project', 'StickyNote')]:
            for what in ('sql', 'dbml'):
                if not has(el, what):
                    continue
                try:
                    got = getattr(el, what)
                except Exception as e:  # noqa
                    viols.append(Viol(f'c16:custom:no-tables:raise:{name}.{what}', f'{name}.{what} raised {type(e).__name__} once the database holds no tables', case))
                    continue
                if got != expect(what, name, el):
                    viols.append(Viol(f'c16:custom:no-tables:{name}.{what}', f'once the database holds no tables {name}.{what} is {got[:80]!r}, expected {expect(what, name, el)!r} from the configured renderer', case))
        db = get_db(s, how, style, sql_renderer=R_sql, dbml_renderer=R_dbml)
    # an element the database refuses to take (its name is taken) stays detached: default renderers
    spare = get_db(s, how, style)
    cands = list(spare.enums) + list(spare.table_groups) + list(spare.tables) + ([spare.project] if spare.project is not None else [])
    for el in cands:
        name = type(el).__name__
        try:
            spare.delete(el)
            texts = {w: getattr(el, w) for w in ('sql', 'dbml') if has(el, w)}
        except Exception:  # noqa
            continue
        try:
            db.add(el)
        except Exception:  # noqa
            pass
        else:
            db.delete(el)       # accepted after all (not this property's business): take it out again
        for w, want in texts.items():
            try:
                got = getattr(el, w)
            except Exception as e:  # noqa
                viols.append(Viol(f'c16:rejected:raise:{name}.{w}', f'{name}.{w} of an element the database refused to add raised {type(e).__name__}: {e}', case))
                continue
            if got != want:
                viols.append(Viol(f'c16:rejected:{name}.{w}', f'{name}.{w} of an element the database refused to add is {got[:80]!r}, '
                                  f'its rendering as a detached element was {want[:80]!r}', case))
    # detached elements fall back to the default renderers
    twin = get_db(s, how, style)
    pairs = list(zip(db.enums, twin.enums)) + list(zip(db.table_groups, twin.table_groups)) + list(zip(db.refs, twin.refs))
    if db.project is not None:
        pairs.append((db.project, twin.project))
    for el, tw in pairs:
        ref_texts = {w: getattr(tw, w) for w in ('sql', 'dbml') if has(tw, w)}
        try:
            db.delete(el)
        except Exception as e:  # noqa
            viols.append(Viol('c16:detached:delete', f'deleting {type(el).__name__} raised {type(e).__name__}: {e}', case))
            continue
        for w, want in ref_texts.items():
            try:
                got = getattr(el, w)
            except Exception as e:  # noqa
                viols.append(Viol(f'c16:detached:raise:{type(el).__name__}.{w}', f'detached {type(el).__name__}.{w} raised {type(e).__name__}: {e}', case))
                continue
            if got != want:
                viols.append(Viol(f'c16:detached:{type(el).__name__}.{w}', f'detached {type(el).__name__}.{w} is {got[:80]!r}, the default rendering is {want[:80]!r}', case))
    return viols


def consume(db_text, texts):
    """remove each text once (longest first); return (missing, remainder)"""
    buf = db_text
    missing = []
    for t in sorted(texts, key=len, reverse=True):
        k = buf.find(t)
        if t == '' or k < 0:
            missing.append(t)
            continue
        buf = buf[:k] + '\x00' * len(t) + buf[k + len(t):]
    return missing, buf.replace('\x00', '')


def all_texts(db):
    out = {}
    for what in ('sql', 'dbml'):
        for name, el in [('db', db)] + [(f'{n}#{k}', e) for k, (n, e) in enumerate(top_elements(db))]:
            if el is db or has(el, what):
                try:
                    out[f'{name}.{what}'] = getattr(el, what)
                except Exception as e:  # noqa
                    out[f'{name}.{what}'] = f'<raised {type(e).__name__}>'
    return out


def check_later(s, how, style, db, script, case):
    """"... leaves the model and later renderings unchanged": `db` has been rendered (any number of times, in any order),
    an equal twin has not; the same in-place edits are then made to both, and every rendering of the two must agree."""
    twin = get_db(s, how, style)
    try:
        s2 = C.edited(s, db, script)
        s2b = C.edited(s, twin, script)
    except Exception:  # noqa -- an edit the library refuses: nothing to compare
        return []
    if s2 is None or s2b is None:
        return []
    a, b = all_texts(db), all_texts(twin)
    for k in a:
        if a[k] != b.get(k):
            return [Viol('c16:purity:later:' + k.split('.')[-1], f'after the same edits {k} of a database that had been rendered before differs from that of an equal '
                         'database that had not:\n' + c02._first_diff(b.get(k, ''), a[k]), case)]
    return []


def check_default(s, how, style, schedule, case, script=()):
    viols = []
    db = get_db(s, how, style)
    els = top_elements(db)
    before = extract(db)
    first = {}
    # the schedule first (any order, repeats), then every rendering once more
    plan = [(i, w) for i, w in schedule if i < len(els)] + [(-1, 'sql'), (-1, 'dbml')] + \
           [(i, w) for i in range(len(els)) for w in ('sql', 'dbml')] + [(-1, 'dbml'), (-1, 'sql')]
    for i, what in plan:
        el = db if i < 0 else els[i][1]
        if not has(el, what):
            continue
        try:
            got = getattr(el, what)
        except Exception as e:  # noqa
            viols.append(Viol(f'c16:default:raise:{type(el).__name__}.{what}', f'{type(el).__name__}.{what} raised {type(e).__name__}: {e}', case))
            continue
        key = (i, what)
        if key in first and first[key] != got:
            viols.append(Viol(f'c16:purity:{type(el).__name__}.{what}', f'{type(el).__name__}.{what} changed between two evaluations', case))
        first.setdefault(key, got)
    if extract(db) != before:
        viols.append(Viol('c16:purity:default', 'rendering changed the model', case))
    if (-1, 'dbml') in first:
        texts = [t.dbml for t in db.tables] + [e.dbml for e in db.enums] + [r.dbml for r in db.refs if not r.inline]
        texts += [g.dbml for g in db.table_groups] + [n.dbml for n in db.sticky_notes] + ([db.project.dbml] if db.project else [])
        missing, rest = consume(first[(-1, 'dbml')], texts)
        for t in missing:
            viols.append(Viol('c16:default:dbml:missing', f'an element\'s .dbml does not occur verbatim (once, outside other elements) in db.dbml: {t[:120]!r}', case))
        if not missing and rest.strip('\n') != '':
            viols.append(Viol('c16:default:dbml:extra', f'db.dbml contains text that is no element\'s .dbml: {rest.strip()[:120]!r}', case))
    if (-1, 'sql') in first:
        texts = [t.sql for t in db.tables] + [e.sql for e in db.enums] + [r.sql for r in db.refs if not r.inline]
        missing, rest = consume(first[(-1, 'sql')], texts)
        for t in missing:
            viols.append(Viol('c16:default:sql:missing', f'an element\'s .sql does not occur verbatim (once, outside other elements) in db.sql: {t[:120]!r}', case))
        if not missing and rest.strip('\n') != '':
            viols.append(Viol('c16:default:sql:extra', f'db.sql contains text that is no element\'s .sql: {rest.strip()[:120]!r}', case))
    if script and not viols:
        viols += check_later(s, how, style, db, script, case)
    return viols


def evaluate(c, ctx: Ctx = None):
    s, style, handled_sql, handled_dbml, schedule = c[:5]
    ROUTE[0] = c[5] if len(c) > 5 else 'parse'
    script = [tuple(e) for e in c[6]] if len(c) > 6 else []
    viols = []
    for how in ('parsed', 'built'):
        case = dict(schema=model.to_json(s), how=how, handled_sql=sorted(handled_sql), handled_dbml=sorted(handled_dbml),
                    schedule=schedule, route=ROUTE[0], script=[list(e) for e in script])
        try:
            viols += check_custom(s, how, style, handled_sql, handled_dbml, schedule, dict(case, cfg='custom'))
            viols += check_default(s, how, style, schedule, dict(case, cfg='default'), script)
        except Exception as e:  # noqa
            if how == 'built':
                raise
            if ctx is not None:
                ctx.extra['source_rejected'] = ctx.extra.get('source_rejected', 0) + 1
            continue
        if ctx is not None:
            partial = 0 < len(handled_sql | handled_dbml) and (len(handled_sql) < len(TYPE_NAMES) or len(handled_dbml) < len(TYPE_NAMES))
            key = thash(model.to_json(s).__repr__() + how + str(sorted(handled_sql)) + str(sorted(handled_dbml)) + str(schedule))
            ctx.record('c' + key + ROUTE[0], partial or len(schedule) >= 6, ['cfg:custom', f'how:{how}', 'detached'] + ([f'route:{ROUTE[0]}'] if how == 'parsed' else []),
                       dict(how=how, handled_sql=sorted(handled_sql), handled_dbml=sorted(handled_dbml), schedule=schedule[:8]) if len(ctx.samples) < 3 else None)
            ctx.record('d' + key, len(schedule) >= 6, ['cfg:default', f'how:{how}'])
    return viols


def replay(case):
    from ..surface import Style
    s = model.from_json(case['schema'])
    ROUTE[0] = case.get('route', 'parse')
    sched = [tuple(x) for x in case['schedule']]
    if case.get('cfg') == 'custom':
        return check_custom(s, case['how'], Style(), set(case['handled_sql']), set(case['handled_dbml']), sched, case)
    return check_default(s, case['how'], Style(), sched, case, [tuple(e) for e in case.get('script', [])])


def shard(ctx: Ctx):
    quick = ctx.tier == 'quick'
    sizes = gen.Sizes(tables=3, columns=3, indexes=2, enums=2, items=2, refs=4, groups=2, stickies=2, props=1)
    feats = frozenset(C.parse_features() - {'triple_quote_text'})

    @st.composite
    def cases(draw):
        s = draw(gen.schemas(feats, sizes, min_tables=0))
        hs = set(draw(st.lists(st.sampled_from(TYPE_NAMES), unique=True)))
        hd = set(draw(st.lists(st.sampled_from(TYPE_NAMES), unique=True)))
        sched = draw(st.lists(st.tuples(st.integers(0, 14), st.sampled_from(['sql', 'dbml'])), max_size=12))
        return s, draw(gen.styles()), hs, hd, sched, draw(st.sampled_from(['parse', 'str', 'path', 'file'])), draw(C.edit_scripts(3))

    hyp_run(ctx, 'configs', cases(), lambda c: evaluate(c, ctx), 60 if quick else 600)
