"""C05 — a parsed database is one consistently linked object graph.

INVARIANT oracle over object identity (`is`), evaluated on PyDBML(write(schema, style)) where the
writer addresses every table in a randomly chosen admissible way (schema.name, bare name, alias):
reference endpoints are the tables' own Column objects, back-pointers (column/index -> table,
note -> owner, contained object -> database), index subjects, enum-typed columns, group members,
lookup by index / full name / alias, get_refs(), and the unique SQL key holder of each reference.
"""
from __future__ import annotations

from hypothesis import strategies as st

from .. import findings as F
from .. import gen, model
from ..core import Ctx, Viol, hyp_run, thash
from ..surface import Style, write
from .c01 import classify, strict_features

RULE = ('generated documents biased to aliases, schemas, enum-typed columns, inline/standalone/composite '
        'references, indexes, groups, sticky notes, project; every table addressed in a random admissible way. '
        'non-trivial: >= 1 reference, or an enum-typed column, or a table group; distinct by sha1 of the text')
ASSUMPTIONS = ['aliases are disjoint from table names (an alias equal to another table\'s name has no defined DBML meaning)',
               'the SQL key-holder clause is observed through pydbml.renderer.sql.default.table.get_references_for_sql']
FLOORS = {'quick': {'has_alias': 20, 'same_name_two_schemas': 100, 'enum_col': 30, 'inline_ref': 30, 'composite_ref': 10, 'has_group': 30},
          'thorough': {'has_alias': 200, 'enum_col': 300, 'inline_ref': 300, 'composite_ref': 100, 'has_group': 300}}


def _is(a, b):
    return a is b


def check_graph(s, db, case):
    out = []

    def bad(clause, msg):
        out.append(Viol(f'c05:{clause}', msg, case, size=len(case.get('text') or '')))

    if (len(db.tables), len(db.enums), len(db.refs), len(db.table_groups), len(db.sticky_notes)) != \
            (len(s.tables), len(s.enums), len(s.all_refs()), len(s.groups), len(s.stickies)):
        bad('shape', 'element counts differ from the document (see C01); graph not checked')
        return out
    tab = {t.key: db.tables[i] for i, t in enumerate(s.tables)}
    enums = {(e.schema, e.name): db.enums[i] for i, e in enumerate(s.enums)}
    for i, (a, t) in enumerate(zip(s.tables, db.tables)):
        w = f'table {a.key}'
        if t.database is not db:
            bad('table.database', f'{w}: .database is not the Database')
        try:
            if db[i] is not t:
                bad('lookup.index', f'{w}: db[{i}] is another object')
            if db[f'{a.schema}.{a.name}'] is not t:
                bad('lookup.fullname', f'{w}: db[full name] is another object')
            if a.alias and db[a.alias] is not t:
                bad('lookup.alias', f'{w}: db[alias] is another object')
        except Exception as e:  # noqa
            bad('lookup.error', f'{w}: lookup raised {type(e).__name__}: {e}')
        if t.note.parent is not t:
            bad('note.parent.table', f'{w}: note.parent is not the table')
        if len(t.columns) != len(a.columns) or len(t.indexes) != len(a.indexes):
            bad('shape', f'{w}: column/index counts differ (see C01)')
            continue
        for j, (ac, c) in enumerate(zip(a.columns, t.columns)):
            if c.table is not t:
                bad('column.table', f'{w}: column {ac.name!r}.table is not its table')
            if c.note.parent is not c:
                bad('note.parent.column', f'{w}: column {ac.name!r} note.parent is not the column')
            try:
                if t[j] is not c or t[ac.name] is not c:
                    bad('column.lookup', f'{w}: t[{j}] / t[{ac.name!r}] is another object')
            except Exception as e:  # noqa
                bad('column.lookup', f'{w}: column lookup raised {type(e).__name__}: {e}')
            if ac.type[0] == 'enum':
                if c.type is not enums[(ac.type[1], ac.type[2])]:
                    bad('column.enum', f'{w}: column {ac.name!r} type {c.type!r} is not the declared Enum object {ac.type}')
            if c.database is not db:
                bad('column.database', f'{w}: column {ac.name!r}.database is not the Database')
        for j, (ai, ix) in enumerate(zip(a.indexes, t.indexes)):
            if ix.table is not t:
                bad('index.table', f'{w}: index {j}.table is not its table')
            if ix.note.parent is not ix:
                bad('note.parent.index', f'{w}: index {j} note.parent is not the index')
            if len(ix.subjects) != len(ai.subjects):
                bad('shape', f'{w}: index {j} subject count differs')
                continue
            for (k, v), subj in zip(ai.subjects, ix.subjects):
                if k == 'col':
                    want = t.columns[[c.name for c in a.columns].index(v)]
                    if subj is not want:
                        bad('index.subject', f'{w}: index {j} subject {v!r} is not the table\'s own Column object')
    for (a, e) in zip(s.enums, db.enums):
        if e.database is not db:
            bad('enum.database', f'enum {a.name!r}: .database is not the Database')
        for it in e.items:
            if it.note.parent is not it:
                bad('note.parent.enum_item', f'enum {a.name!r}: item note.parent is not the item')

    def cols(tkey, names):
        a = s.table(tkey)
        t = tab[tkey]
        return [t.columns[[c.name for c in a.columns].index(n)] for n in names]

    arefs = s.all_refs()
    for i, (a, r) in enumerate(zip(arefs, db.refs)):
        w = f'ref {i} {a.t1}.{a.c1} {a.kind} {a.t2}.{a.c2}'
        if r.database is not db:
            bad('ref.database', f'{w}: .database is not the Database')
        w1, w2 = cols(a.t1, a.c1), cols(a.t2, a.c2)
        if len(r.col1) != len(w1) or any(x is not y for x, y in zip(r.col1, w1)):
            bad('ref.col1', f'{w}: col1 is not the referenced table\'s own Column object(s)'
                            + (' (equal copy)' if list(r.col1) == w1 else ''))
        if len(r.col2) != len(w2) or any(x is not y for x, y in zip(r.col2, w2)):
            bad('ref.col2', f'{w}: col2 is not the referenced table\'s own Column object(s)'
                            + (' (equal copy)' if list(r.col2) == w2 else ''))
        try:
            if r.table1 is not tab[a.t1] or r.table2 is not tab[a.t2]:
                bad('ref.tables', f'{w}: table1/table2 are not the addressed Table objects')
        except Exception as e:  # noqa
            bad('ref.tables', f'{w}: table1/table2 raised {type(e).__name__}: {e}')
    for a, t in zip(s.tables, db.tables):
        want = [r for ar, r in zip(arefs, db.refs) if ar.t1 == a.key]
        try:
            got = t.get_refs()
            if sorted(map(id, got)) != sorted(map(id, want)):
                bad('get_refs', f'table {a.key}: get_refs() returns {len(got)} references, {len(want)} have it on the left side '
                                f'(identity multiset differs)')
        except Exception as e:  # noqa
            bad('get_refs', f'table {a.key}: get_refs() raised {type(e).__name__}: {e}')
    try:
        from pydbml.renderer.sql.default.table import get_references_for_sql
    except Exception:  # noqa
        get_references_for_sql = None
    if get_references_for_sql is not None:
        holders = {id(r): [] for r in db.refs}
        for a, t in zip(s.tables, db.tables):
            try:
                for r in get_references_for_sql(t):
                    holders.setdefault(id(r), []).append(a.key)
            except Exception as e:  # noqa
                bad('key_holder', f'get_references_for_sql({a.key}) raised {type(e).__name__}: {e}')
        for ar, r in zip(arefs, db.refs):
            if ar.kind == '<>':
                if holders[id(r)]:
                    bad('key_holder.m2m', f'many-to-many reference assigned to key holder(s) {holders[id(r)]}')
                continue
            want = ar.t1 if ar.kind in ('>', '-') else ar.t2
            if holders[id(r)] != [want]:
                bad('key_holder', f'reference {ar.t1}.{ar.c1} {ar.kind} {ar.t2}.{ar.c2}: SQL key holder(s) {holders[id(r)]}, expected exactly [{want}]')
    for a, g in zip(s.groups, db.table_groups):
        if g.database is not db:
            bad('group.database', f'group {a.name!r}: .database is not the Database')
        if len(g.items) != len(a.items) or any(x is not tab[k] for x, k in zip(g.items, a.items)):
            bad('group.items', f'group {a.name!r}: items are not the Table objects of the database')
        if (a.note is not None and g.note is None) or (g.note is not None and g.note.parent is not g):
            bad('note.parent.group', f'group {a.name!r}: note.parent is not the group')
    for a, n in zip(s.stickies, db.sticky_notes):
        if n.database is not db:
            bad('sticky.database', f'sticky note {a.name!r}: .database is not the Database')
    if s.project is not None:
        if db.project is None or db.project.database is not db:
            bad('project.database', 'project.database is not the Database')
        elif db.project.note.parent is not db.project:
            bad('note.parent.project', 'project note.parent is not the project')
    return out


def evaluate(s, style, ctx: Ctx = None, gen_name='?'):
    from pydbml import PyDBML
    text, lines = write(s, style)
    case = dict(schema=model.to_json(s), text=text, gen=gen_name)
    try:
        db = PyDBML.parse(text, allow_properties=True) if s.allow_properties else PyDBML.parse(text)
    except Exception:  # noqa  -- rejection of a well-formed document is C01's business
        if ctx is not None:
            ctx.extra['source_rejected'] = ctx.extra.get('source_rejected', 0) + 1
        return []
    viols = check_graph(s, db, case)
    if ctx is not None:
        nt = bool(s.all_refs()) or any(c.type[0] == 'enum' for t in s.tables for c in t.columns) or bool(s.groups)
        cls = classify(s, lines) + ([f'has_group'] if s.groups else []) + [f'gen:{gen_name}']
        sample = dict(text=text) if nt and len(text) < 600 and len(ctx.samples) < ctx.MAX_SAMPLES else None
        ctx.record(thash(text), nt, cls, sample)
    return viols


def replay(case):
    from pydbml import PyDBML
    s = model.from_json(case['schema'])
    db = PyDBML.parse(case['text'], allow_properties=True) if s.allow_properties else PyDBML.parse(case['text'])
    return check_graph(s, db, case)


def shard(ctx: Ctx):
    quick = ctx.tier == 'quick'
    sizes = gen.QUICK if quick else gen.THOROUGH
    feats = strict_features()

    @st.composite
    def cases(draw):
        return draw(gen.schemas(feats, sizes, min_tables=1)), draw(gen.styles())

    hyp_run(ctx, 'graphs', cases(), lambda c: evaluate(c[0], c[1], ctx, 'sampled'), 220 if quick else 2000)
