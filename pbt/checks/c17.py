"""C17 — inconsistent models are refused at render time, not rendered as bogus output.

(i)  exhaustive matrix: element kind x missing required attribute (table/column/enum/enum-item name, column type,
     enum schema, index table) x how the state was reached (constructed so | attached then cleared | attached
     then detached) x how it is rendered (alone | through its parent | through db.sql) -> AttributeMissingError;
(ii) references: one column detached (TableNotFoundError from .sql and .dbml), one side mixing columns of two tables
     (DBMLError from .table1/.table2 and, for non-inline references, from .dbml), inline composite .dbml (DBMLError),
     x kind x single/composite x reached by construction or by editing; also inside Hypothesis-sampled schemas;
(iii) get_refs() of a detached table / of a column without table / of a column whose table has no database.
Control arm: the consistent twin of every cell renders without error.
"""
from __future__ import annotations

import itertools

from hypothesis import strategies as st

from .. import gen, model
from ..build import build
from ..core import Ctx, Viol, hyp_run, thash
from . import sqlcommon as C

RULE = ('exhaustive matrix of (element kind, missing attribute, history, rendering route) cells and of reference '
        'inconsistency cells (detached column / mixed side / inline composite x kind x arity x history), each with its '
        'consistent control twin, plus references made inconsistent inside Hypothesis-sampled schemas. every cell is '
        'non-trivial; distinct by cell id')
ASSUMPTIONS = ['only the attributes the statement enumerates are cleared',
               'for a side mixing two tables the statement fixes .table1/.table2 and .dbml of a non-inline reference; .sql is not constrained']
EXHAUSTIVE = True
FLOORS_EXPLICIT = True
FLOORS = {'quick': {'matrix': 25, 'ref-cell': 80, 'sampled': 100}, 'thorough': {'matrix': 25, 'ref-cell': 80, 'sampled': 1500}}


def _exc(name):
    import pydbml.exceptions as E
    return getattr(E, name)


def expect_raises(thunk, excname, cell, what):
    # 'A|B': either refusal is admissible (database-level rendering reaches the reference through its tables first)
    try:
        r = thunk()
    except tuple(_exc(n) for n in excname.split('|')):
        return []
    except Exception as e:  # noqa
        return [Viol(f'c17:{cell}:wrong-error', f'{what}: raised {type(e).__name__}: {str(e)[:120]}, expected {excname}', dict(cell=cell))]
    return [Viol(f'c17:{cell}:rendered', f'{what}: returned {str(r)[:100]!r} instead of raising {excname}', dict(cell=cell))]


def expect_ok(thunk, cell, what):
    try:
        thunk()
    except Exception as e:  # noqa
        return [Viol(f'c17:{cell}:control', f'control arm ({what}) raised {type(e).__name__}: {e}', dict(cell=cell))]
    return []


# -- (i) attribute matrix ------------------------------------------------------------------------

def fresh(used=False):
    """`used`: everything is rendered once while the model is still consistent (nothing concluded then may survive the edit)"""
    from pydbml import Database
    from pydbml.classes import Column, Enum, EnumItem, Index, Table
    db = Database()
    e = Enum('en', [EnumItem('i1'), EnumItem('i2')], schema='s1')
    t = Table('tab', schema='s1')
    c1, c2 = Column('c1', 'int'), Column('c2', e)
    t.add_column(c1)
    t.add_column(c2)
    ix = Index([c1], name='ix')
    t.add_index(ix)
    db.add(e)
    db.add(t)
    if used:
        from ..lib import render_everything
        render_everything(db)
    return db, t, c1, c2, e, ix


def _hist(h):
    return h.endswith('+used'), h.replace('+used', '')


def matrix_cells():
    """yield (cell id, builder) ; builder() -> list of (what, thunk, expected exception name | None for control)"""
    from pydbml.classes import Column, Enum, EnumItem, Index, Table

    def table_name(history):
        used, history = _hist(history)

        def b():
            db, t, c1, c2, e, ix = fresh(used)
            if history == 'constructed':
                t2 = Table(None, schema='s2')
                t2.add_column(Column('x', 'int'))
                db.add(t2)
                return [('table.sql', lambda: t2.sql, 'AttributeMissingError'), ('db.sql', lambda: db.sql, 'AttributeMissingError')]
            t.name = None
            return [('table.sql', lambda: t.sql, 'AttributeMissingError'), ('db.sql', lambda: db.sql, 'AttributeMissingError')]
        return b

    def column_attr(attr, history):
        used, history = _hist(history)

        def b():
            db, t, c1, c2, e, ix = fresh(used)
            if history == 'constructed':
                c = Column(None, 'int') if attr == 'name' else Column('n', None)
                t.add_column(c)
            elif history == 'detached':
                c = t.delete_column(c2)
                setattr(c, attr, None)
                return [('column.sql', lambda: c.sql, 'AttributeMissingError'), ('table.sql', lambda: t.sql, None)]
            else:
                c = c2
                setattr(c, attr, None)
            return [('column.sql', lambda: c.sql, 'AttributeMissingError'), ('table.sql', lambda: t.sql, 'AttributeMissingError'),
                    ('db.sql', lambda: db.sql, 'AttributeMissingError')]
        return b

    def enum_attr(attr, history):
        used, history = _hist(history)

        def b():
            db, t, c1, c2, e, ix = fresh(used)
            if history == 'constructed':
                e2 = Enum(None, ['a']) if attr == 'name' else Enum('e2', ['a'], schema=None)
                db.add(e2)
                return [('enum.sql', lambda: e2.sql, 'AttributeMissingError'), ('db.sql', lambda: db.sql, 'AttributeMissingError')]
            if history == 'detached':
                db.delete(e)
                setattr(e, attr, None)
                return [('enum.sql', lambda: e.sql, 'AttributeMissingError')]
            setattr(e, attr, None)
            return [('enum.sql', lambda: e.sql, 'AttributeMissingError'), ('db.sql', lambda: db.sql, 'AttributeMissingError')]
        return b

    def item_name(history):
        used, history = _hist(history)

        def b():
            db, t, c1, c2, e, ix = fresh(used)
            if history == 'constructed':
                it = EnumItem(None)
                e.add_item(it)
            else:
                it = e.items[0]
                it.name = None
            return [('item.sql', lambda: it.sql, 'AttributeMissingError'), ('enum.sql', lambda: e.sql, 'AttributeMissingError'),
                    ('db.sql', lambda: db.sql, 'AttributeMissingError')]
        return b

    def index_table(history):
        used, history = _hist(history)

        def b():
            db, t, c1, c2, e, ix = fresh(used)
            if history == 'constructed':
                i2 = Index([c1], unique=True)
            elif history == 'detached':
                i2 = t.delete_index(ix)
            elif history in ('refused', 'refused-loose'):
                # an index the table refused to take (a subject belongs to another table / to no table) is attached to nothing
                oc = Column('o', 'int')
                if history == 'refused':
                    other = Table('other', schema='s1')
                    other.add_column(oc)
                    db.add(other)
                i2 = Index([c1, oc], unique=True)
                try:
                    t.add_index(i2)
                except Exception:  # noqa
                    pass
                else:
                    t.delete_index(i2)
            else:
                i2 = t.delete_index(0)
            out = [('index.sql', lambda: i2.sql, 'AttributeMissingError'), ('table.sql (control)', lambda: t.sql, None)]
            pk = Index([c1], pk=True)
            out.append(('pk index.sql', lambda: pk.sql, 'AttributeMissingError'))
            return out
        return b

    for h in ('constructed', 'cleared', 'cleared+used'):
        yield f'table.name/{h}', table_name(h)
        yield f'item.name/{h}', item_name(h)
    for attr in ('name', 'type'):
        for h in ('constructed', 'cleared', 'detached', 'cleared+used', 'detached+used'):
            yield f'column.{attr}/{h}', column_attr(attr, h)
    for attr in ('name', 'schema'):
        for h in ('constructed', 'cleared', 'detached', 'cleared+used', 'detached+used'):
            yield f'enum.{attr}/{h}', enum_attr(attr, h)
    for h in ('constructed', 'detached', 'detached-by-position', 'detached+used', 'detached-by-position+used', 'refused', 'refused-loose', 'refused+used'):
        yield f'index.table/{h}', index_table(h)

    def control():
        db, t, c1, c2, e, ix = fresh()
        return [('table.sql', lambda: t.sql, None), ('db.sql', lambda: db.sql, None), ('enum.sql', lambda: e.sql, None),
                ('index.sql', lambda: ix.sql, None), ('column.sql', lambda: c2.sql, None), ('item.sql', lambda: e.items[0].sql, None),
                ('db.dbml', lambda: db.dbml, None)]
    yield 'control', control


# -- (ii) references ------------------------------------------------------------------------------

def ref_world():
    from pydbml import Database
    from pydbml.classes import Column, Table
    db = Database()
    tabs = []
    # the 4th and 5th tables share their names with the first two but live in another schema
    for n, sch in (('a', 'public'), ('b', 'public'), ('c', 's1'), ('a', 's1'), ('b', 'other')):
        t = Table(n, schema=sch)
        for cn in ('x', 'y', 'z'):
            t.add_column(Column(cn, 'int'))
        db.add(t)
        tabs.append(t)
    return db, tabs


def ref_cells():
    from pydbml.classes import Column, Reference
    for kind, arity, inline, fault, history in itertools.product(['>', '<', '-', '<>'], [1, 2], [False, True],
                                                                   ['detached1', 'detached2', 'mixed1', 'mixed2', 'mixed1s', 'mixed2s', 'inline_composite', 'none'],
                                                                   ['constructed', 'edited', 'used', 'spliced']):
        if fault == 'inline_composite' and not (inline and arity == 2 and kind != '<>'):
            continue
        if fault.startswith('mixed') and arity == 1:
            continue
        if fault == 'inline_composite' and history != 'constructed':
            continue
        cell = f'ref/{kind}/{arity}/{"inline" if inline else "standalone"}/{fault}/{history}'

        def b(kind=kind, arity=arity, inline=inline, fault=fault, history=history):
            db, (a, bb, c, a_s1, b_other) = ref_world()
            same = fault.endswith('s')      # mix with the same-named table of another schema
            fault = fault.rstrip('s') if fault.startswith('mixed') else fault
            col1 = a.columns[:arity]
            col2 = bb.columns[:arity]
            loose = Column('loose', 'int')
            if history == 'constructed':
                if fault == 'detached1':
                    col1 = [loose] + col1[1:]
                elif fault == 'detached2':
                    col2 = col2[:-1] + [loose]
                elif fault == 'mixed1':
                    col1 = [a.columns[0], (a_s1 if same else c).columns[1]]
                elif fault == 'mixed2':
                    col2 = [bb.columns[0], (b_other if same else c).columns[1]]
            r = Reference(kind, col1, col2, inline=inline, name='r1')
            db.add(r)
            if history in ('used', 'spliced'):
                # the consistent reference is used first (whatever was concluded about it then must not survive the edit)
                for thunk in (lambda: r.table1, lambda: r.table2, lambda: r.sql, lambda: r.dbml, lambda: db.sql, lambda: db.dbml,
                              lambda: a.get_refs(), lambda: bb.get_refs()):
                    try:
                        thunk()
                    except Exception:  # noqa
                        pass
            if history == 'spliced':
                # the column lists are edited in place (no attribute of the reference is assigned)
                if fault == 'detached1':
                    r.col1[0] = loose
                elif fault == 'detached2':
                    r.col2[-1] = loose
                elif fault == 'mixed1':
                    r.col1[-1] = (a_s1 if same else c).columns[1]
                elif fault == 'mixed2':
                    r.col2[-1] = (b_other if same else c).columns[1]
            if history in ('edited', 'used'):
                if fault == 'detached1':
                    a.delete_column(r.col1[0])
                elif fault == 'detached2':
                    bb.delete_column(r.col2[-1])
                elif fault == 'mixed1':
                    moved = a.delete_column(r.col1[-1])
                    moved.name = 'moved'
                    (a_s1 if same else c).add_column(moved)
                elif fault == 'mixed2':
                    moved = bb.delete_column(r.col2[-1])
                    moved.name = 'moved'
                    (b_other if same else c).add_column(moved)
            out = []
            if fault.startswith('detached'):
                out += [('ref.sql', lambda: r.sql, 'TableNotFoundError'), ('ref.dbml', lambda: r.dbml, 'TableNotFoundError')]
                if not r.inline:
                    out += [('db.sql', lambda: db.sql, 'TableNotFoundError|DBMLError'), ('db.dbml', lambda: db.dbml, 'TableNotFoundError|DBMLError')]
            elif fault.startswith('mixed'):
                which = 'table1' if fault == 'mixed1' else 'table2'
                out += [(f'ref.{which}', lambda: getattr(r, which), 'DBMLError')]
                if not r.inline:
                    out += [('ref.dbml', lambda: r.dbml, 'DBMLError'), ('db.dbml', lambda: db.dbml, 'DBMLError')]
            elif fault == 'inline_composite':
                out += [('ref.dbml', lambda: r.dbml, 'DBMLError'), ('ref.sql (control)', lambda: r.sql, None)]
            else:
                out += [('ref.sql', lambda: r.sql, None), ('ref.table1', lambda: r.table1, None), ('db.sql', lambda: db.sql, None)]
                if not (r.inline and arity == 2):
                    out += [('ref.dbml', lambda: r.dbml, None), ('db.dbml', lambda: db.dbml, None)]
            return out
        yield cell, b


def getrefs_cells():
    from pydbml import Database
    from pydbml.classes import Column, Table

    def detached_table():
        t = Table('t')
        t.add_column(Column('x', 'int'))
        return [('table.get_refs()', lambda: t.get_refs(), 'UnknownDatabaseError')]

    def deleted_table():
        db = Database()
        t = Table('t')
        t.add_column(Column('x', 'int'))
        db.add(t)
        db.delete(t)
        return [('table.get_refs() after delete', lambda: t.get_refs(), 'UnknownDatabaseError')]

    def loose_column():
        c = Column('x', 'int')
        return [('column.get_refs()', lambda: c.get_refs(), 'TableNotFoundError')]

    def deleted_column():
        db = Database()
        t = Table('t')
        c = Column('x', 'int')
        t.add_column(c)
        t.add_column(Column('y', 'int'))
        db.add(t)
        t.delete_column(c)
        return [('column.get_refs() after delete_column', lambda: c.get_refs(), 'TableNotFoundError'),
                ('table.get_refs() (control)', lambda: t.get_refs(), None)]

    def column_of_detached_table():
        t = Table('t')
        c = Column('x', 'int')
        t.add_column(c)
        return [('column.get_refs() of a detached table', lambda: c.get_refs(), 'UnknownDatabaseError')]

    def control():
        db = Database()
        t = Table('t')
        c = Column('x', 'int')
        t.add_column(c)
        db.add(t)
        return [('table.get_refs()', lambda: t.get_refs(), None), ('column.get_refs()', lambda: c.get_refs(), None)]
    yield 'get_refs/detached-table', detached_table
    yield 'get_refs/deleted-table', deleted_table
    yield 'get_refs/loose-column', loose_column
    yield 'get_refs/deleted-column', deleted_column
    yield 'get_refs/column-of-detached-table', column_of_detached_table
    yield 'get_refs/control', control


def run_cell(cell, builder):
    viols = []
    for what, thunk, exc in builder():
        if exc is None:
            viols += expect_ok(thunk, cell, what)
        else:
            viols += expect_raises(thunk, exc, cell, what)
    return viols


def all_cells():
    return list(matrix_cells()), list(ref_cells()), list(getrefs_cells())


# -- sampled: a reference made inconsistent inside a generated schema -------------------------------

def eval_sampled(c, ctx: Ctx = None):
    s, pick, how = c
    refs = s.all_refs()
    if not refs:
        return []
    db = build(s)
    k = pick % len(refs)
    a = refs[k]
    r = db.refs[k]
    cell = f'sampled/{how}'
    case = dict(cell=cell, schema=model.to_json(s), pick=pick, how=how)
    viols = []
    if pick % 2:
        # use everything while the model is still consistent
        from ..lib import render_everything
        try:
            render_everything(db)
            [(x.table1, x.table2) for x in db.refs]
            [t.get_refs() for t in db.tables]
        except Exception:  # noqa
            pass

    def V(vs):
        for v in vs:
            viols.append(Viol(v.bucket, v.message, case))
    if how == 'detach1':
        col = r.col1[0]
        col.table.delete_column(col)
        V(expect_raises(lambda: r.sql, 'TableNotFoundError', cell, 'ref.sql after delete_column(col1[0])'))
        V(expect_raises(lambda: r.dbml, 'TableNotFoundError', cell, 'ref.dbml after delete_column(col1[0])'))
    elif how == 'detach2':
        col = r.col2[-1]
        col.table.delete_column(col)
        V(expect_raises(lambda: r.sql, 'TableNotFoundError', cell, 'ref.sql after delete_column(col2[-1])'))
        V(expect_raises(lambda: r.dbml, 'TableNotFoundError', cell, 'ref.dbml after delete_column(col2[-1])'))
        if not r.inline:
            V(expect_raises(lambda: db.sql, 'TableNotFoundError|DBMLError', cell, 'db.sql after delete_column(col2[-1])'))
    elif how == 'mix' and len(r.col1) > 1 and len(db.tables) > 1:
        other = [t for t in db.tables if t is not r.col1[0].table][0]
        moved = r.col1[-1].table.delete_column(r.col1[-1])
        moved.name = moved.name + '_moved'
        other.add_column(moved)
        V(expect_raises(lambda: r.table1, 'DBMLError', cell, 'ref.table1 with col1 over two tables'))
        if not r.inline:
            V(expect_raises(lambda: r.dbml, 'DBMLError', cell, 'ref.dbml with col1 over two tables'))
    elif how == 'get_refs':
        t = db.tables[pick % len(db.tables)]
        col = t.columns[0]
        db.delete(t)
        V(expect_raises(lambda: t.get_refs(), 'UnknownDatabaseError', cell, 'get_refs() of a deleted table'))
        V(expect_raises(lambda: col.get_refs(), 'UnknownDatabaseError', cell, 'get_refs() of a column of a deleted table'))
    if ctx is not None:
        ctx.record(thash(repr(case)), True, ['sampled', f'sampled:{how}'],
                   dict(how=how, ref=f'{a.t1}.{a.c1} {a.kind} {a.t2}.{a.c2}') if len(ctx.samples) < 2 else None)
    return viols


def replay(case):
    cell = case['cell']
    if cell.startswith('sampled/'):
        return eval_sampled((model.from_json(case['schema']), case['pick'], case['how']))
    for group in all_cells():
        for cid, b in group:
            if cid == cell:
                return run_cell(cid, b)
    return []


def shard(ctx: Ctx):
    quick = ctx.tier == 'quick'
    m, r, g = all_cells()
    for k, (cid, b) in enumerate(m + r + g):
        if k % ctx.nshards == ctx.shard:
            ctx.add(run_cell(cid, b))
            ctx.record(cid, True, ['matrix' if (cid, b) in m or (cid, b) in g else 'ref-cell'],
                       dict(cell=cid) if len(ctx.samples) < 3 else None)
    ctx.exhaustive_arms.append(f'{len(m)} attribute cells + {len(r)} reference cells + {len(g)} get_refs cells, each with control')
    sizes = gen.Sizes(tables=4, columns=4, indexes=1, enums=1, items=2, refs=6, groups=0, stickies=0, props=0)

    @st.composite
    def cases(draw):
        s = draw(gen.schemas(C.built_features(), sizes, min_tables=2))
        return s, draw(st.integers(0, 50)), draw(st.sampled_from(['detach1', 'detach2', 'mix', 'get_refs']))

    hyp_run(ctx, 'sampled', cases(), lambda c: eval_sampled(c, ctx), 40 if quick else 1200)
