"""C07 — malformed text is never accepted: the whole input must be valid DBML.

Domain: a valid generated document (independent writer, token/line structure known) + ONE fault of a
provably invalid kind, placed at a Hypothesis-chosen token boundary / token / line.
Oracle EXCEPTION-CLASS: parsing must raise pyparsing.ParseBaseException or SyntaxError.  A returned
Database is a violation; so is a library semantic exception (it proves the syntax phase accepted the text).
Control arm: the unmodified document parses (otherwise the case is discarded and counted).
"""
from __future__ import annotations

import copy

from hypothesis import strategies as st

from .. import gen, model
from ..core import Ctx, Viol, hyp_run, thash
from ..surface import Line, Tok, render
from .c01 import strict_features

RULE = ('valid generated document + one provably invalid fault: stray punctuation token at a token boundary; '
        'deleted / extra structural brace or bracket; unterminated string; column without type; unknown setting '
        'word; unknown index type / reference operator / action; malformed colour; leading / trailing garbage. '
        'every case is non-trivial; distinct by sha1 of (faulty text)')
ASSUMPTIONS = ['base documents carry quote-free comments (own-line and trailing, some ending in a backslash) placed before the fault is injected',
               'word-like stray tokens are not in the catalogue: they are frequently valid DBML in context',
               'faults are placed between the writer\'s tokens, never inside a literal, name or type']
KINDS = ['stray', 'del_struct', 'extra_struct', 'unterminated', 'no_type', 'unknown_setting', 'bad_index_type',
         'bad_operator', 'bad_action', 'bad_colour', 'garbage_end', 'garbage_start', 'truncate', 'literal_as_name',
         'dup_settings', 'empty_block', 'dup_type_args', 'dup_name', 'unicode_token']
FLOORS = {'quick': {f'kind:{k}': 15 for k in KINDS}, 'thorough': {f'kind:{k}': 300 for k in KINDS}}
STRAY = ['@', '%', ';', '=', '!', '~', '^', '&', '|', '?', '$', '@@', '=;', '\ufeff', '\ufeff\ufeff']
SETTING_KINDS = {'column', 'index', 'enum_item', 'table_open', 'group_open', 'ref_short', 'ref_body', 'settings_cont'}


COMMENTS = ['c', 'TODO', 'see C:\\schemas\\', 'ends with backslash \\', 'a {b} [c]', '}', ']', 'Table x {', 'x \\\\', 'é', '-- sql', 'note: x']


def _real_lines(lines):
    return [i for i, l in enumerate(lines) if l.toks and l.kind != 'comment']


def _ntoks(line):
    """number of tokens before a trailing comment token"""
    return len([t for t in line.toks if t.cls != 'comment'])


@st.composite
def with_comments(draw, lines):
    """The document is a sequence of elements, comments and blank lines: sprinkle quote-free comments over the
    (still valid) document before the fault is injected -- own-line // and /* */ comments and trailing ones."""
    lines = copy.deepcopy(lines)
    for _ in range(draw(st.integers(0, 4))):
        c = draw(st.sampled_from(COMMENTS))
        form = draw(st.sampled_from(['//', '// ', '/*']))
        text = f'/*{c}*/' if form == '/*' else form + c
        i = draw(st.integers(0, len(lines)))
        if i < len(lines) and lines[i].toks and lines[i].kind != 'comment' and not any(t.cls == 'comment' for t in lines[i].toks) \
                and draw(st.booleans()):
            lines[i].toks.append(Tok(text, 'comment', ' '))
        else:
            lines.insert(i, Line('comment', (), [Tok(text, 'comment')], draw(st.sampled_from(['', '  ']))))
    return lines


@st.composite
def fault(draw, lines, eol='\n'):
    """Returns (kind, faulty lines) or None if the kind does not apply to this document."""
    lines = copy.deepcopy(lines)
    kind = draw(st.sampled_from(KINDS))
    real = _real_lines(lines)
    if not real:
        return None

    def toks_where(pred):
        return [(i, j) for i in real for j, t in enumerate(lines[i].toks) if pred(lines[i], t)]

    if kind == 'stray':
        i = draw(st.sampled_from(real))
        j = draw(st.integers(0, _ntoks(lines[i])))
        lines[i].toks.insert(j, Tok(draw(st.sampled_from(STRAY)), 'fault', ' '))
        if j + 1 < len(lines[i].toks) and lines[i].toks[j + 1].pre == '':
            lines[i].toks[j + 1].pre = ' '
    elif kind == 'del_struct':
        c = toks_where(lambda l, t: t.cls == 'punct' and t.text in '{}[]')
        if not c:
            return None
        i, j = draw(st.sampled_from(c))
        del lines[i].toks[j]
        if not lines[i].toks:
            lines[i].kind = 'blank'
        elif _ntoks(lines[i]) == 0:
            lines[i].kind = 'comment'
    elif kind == 'extra_struct':
        i = draw(st.sampled_from(real))
        j = draw(st.integers(0, _ntoks(lines[i])))
        lines[i].toks.insert(j, Tok(draw(st.sampled_from(['{', '}', '[', ']'])), 'fault', ' '))
        if j + 1 < len(lines[i].toks) and lines[i].toks[j + 1].pre == '':
            lines[i].toks[j + 1].pre = ' '
    elif kind == 'unterminated':
        def ok(l, t):
            if t.cls != 'str' or t.text.startswith("'''") or '\n' in t.text:
                return False
            q = t.text[0]
            inner = t.text[1:-1]
            if q in inner:
                return False
            return sum(x.text.count(q) for x in l.toks) == 2
        c = toks_where(ok)
        if not c:
            return None
        i, j = draw(st.sampled_from(c))
        lines[i].toks[j].text = lines[i].toks[j].text[:-1]
    elif kind == 'no_type':
        c = [i for i in real if (lines[i].kind == 'column' and lines[i].part in ('only', 'first')) or lines[i].kind == 'table_close']
        if not c:
            return None
        i = draw(st.sampled_from(c))
        lines.insert(i, Line('fault', (), [Tok(draw(st.sampled_from(['lonely_col', '"lonely col"', 'x1'])), 'fault')], '  '))
    elif kind == 'unknown_setting':
        c = toks_where(lambda l, t: l.kind in SETTING_KINDS and t.cls == 'punct' and t.text in '[,')
        if not c:
            return None
        i, j = draw(st.sampled_from(c))
        word = draw(st.sampled_from(['zzz', 'frob', 'nullx', 'uniq']))
        lines[i].toks[j + 1:j + 1] = [Tok(word, 'fault', ' '), Tok(',', 'fault', '')]
        if j + 3 < len(lines[i].toks) and lines[i].toks[j + 3].pre == '':
            lines[i].toks[j + 3].pre = ' '
    elif kind in ('bad_index_type', 'bad_action'):
        key = 'type:' if kind == 'bad_index_type' else None
        c = []
        for i in real:
            for j, t in enumerate(lines[i].toks[:-1]):
                low = t.text.lower()
                if (kind == 'bad_index_type' and low == 'type:' and lines[i].kind in ('index', 'settings_cont')) or \
                        (kind == 'bad_action' and low in ('update:', 'delete:')):
                    c.append((i, j + 1))
        if not c:
            return None
        i, j = draw(st.sampled_from(c))
        lines[i].toks[j].text = draw(st.sampled_from(['quadtree', 'b_tree', 'hashx'] if kind == 'bad_index_type'
                                                      else ['explode', 'cascade_all', 'set', 'no']))
    elif kind == 'bad_operator':
        c = toks_where(lambda l, t: t.cls == 'op')
        if not c:
            return None
        i, j = draw(st.sampled_from(c))
        lines[i].toks[j].text = draw(st.sampled_from(['=', '>>', '<<', '><', '=>', '->', '<->', '<=', '~']))
    elif kind == 'bad_colour':
        c = toks_where(lambda l, t: t.cls == 'color')
        if not c:
            return None
        i, j = draw(st.sampled_from(c))
        lines[i].toks[j].text = draw(st.sampled_from(['#ff', '#ffff', '#12345', '#1234567', '#ggg', 'fff', '#', '#f-f']))
    elif kind == 'literal_as_name':
        # an identifier is a word or a double-quoted string: a backtick expression, a single- or triple-quoted
        # string or a colour in its place is not DBML (index subjects, which may be expressions, are left alone)
        name_lines = {'table_open', 'group_open', 'enum_open', 'sticky_open', 'project_open', 'column', 'enum_item', 'group_item',
                      'ref_short', 'ref_open', 'ref_body', 'project_field', 'table_prop'}
        c = toks_where(lambda l, t: l.kind in name_lines and t.cls in ('name', 'propkey'))
        if not c:
            return None
        i, j = draw(st.sampled_from(c))
        lines[i].toks[j].text = draw(st.sampled_from(['`users`', '`a b`', "'users'", "'''users'''", '#fff', '`x [\n y ]\n`', '``']))
    elif kind == 'dup_settings':
        # a settings list may appear once: `id int [pk] [unique]`, `Ref: a.b > c.d [..] [..]`, `x [note: ..] [note: ..]`
        c = [i for i in real if lines[i].part == 'only' and lines[i].kind in SETTING_KINDS - {'settings_cont'}
             and any(t.cls == 'punct' and t.text == '[' for t in lines[i].toks) and any(t.cls == 'punct' and t.text == ']' for t in lines[i].toks)]
        if not c:
            return None
        i = draw(st.sampled_from(c))
        toks = lines[i].toks
        a = next(k for k, t in enumerate(toks) if t.cls == 'punct' and t.text == '[')
        b = max(k for k, t in enumerate(toks) if t.cls == 'punct' and t.text == ']')
        dup = [Tok(t.text, t.cls, t.pre) for t in toks[a:b + 1]]
        dup[0].pre = ' '
        lines[i].toks = toks[:b + 1] + dup + toks[b + 1:]
    elif kind == 'dup_name':
        # an element has one name and at most one alias: `Table a a {`, `Ref n n: ...`, `Table t as x as x {`, `Enum e e {`
        heads = {'table_open', 'group_open', 'enum_open', 'sticky_open', 'project_open', 'ref_short', 'ref_open'}
        c = toks_where(lambda l, t: l.kind in heads and l.part in ('only', 'first') and t.cls == 'name')
        c = [(i, j) for i, j in c if j == 1 or (lines[i].toks[j - 1].cls == 'kw' and lines[i].toks[j - 1].text.lower() == 'as')]
        if not c:
            return None
        aliases = [(i, j) for i, j in c if j != 1]
        if aliases and draw(st.booleans()):
            c = aliases
        i, j = draw(st.sampled_from(c))
        toks = lines[i].toks
        a = j if j == 1 else j - 1
        dup = [Tok(x.text, x.cls, ' ') for x in toks[a:j + 1]]
        lines[i].toks = toks[:j + 1] + dup + toks[j + 1:]
    elif kind == 'unicode_token':
        # DBML syntax is ASCII: a digit of another script inside a number, or a full-width bracket / colon / comma / operator
        # in place of the ASCII one, is not DBML (what int() or a Unicode-aware regex would take for the same thing)
        digits = {d: [chr(0x0660 + int(d)), chr(0xFF10 + int(d)), chr(0x0966 + int(d))] for d in '0123456789'}
        wide = {'[': '\uff3b', ']': '\uff3d', '{': '\uff5b', '}': '\uff5d', ':': '\uff1a', ',': '\uff0c', '>': '\uff1e', '<': '\uff1c',
                '-': '\u2212', '(': '\uff08', ')': '\uff09'}
        c = toks_where(lambda l, t: (t.cls == 'num' and any(ch.isdigit() for ch in t.text)) or (t.cls == 'punct' and t.text in wide))
        nums = [(i, j) for i, j in c if lines[i].toks[j].cls == 'num']
        if nums and draw(st.booleans()):
            c = nums
        if not c:
            return None
        i, j = draw(st.sampled_from(c))
        tok = lines[i].toks[j]
        if tok.cls == 'num':
            pos = [k for k, ch in enumerate(tok.text) if ch in digits]
            k = draw(st.sampled_from(pos))
            tok.text = tok.text[:k] + draw(st.sampled_from(digits[tok.text[k]])) + tok.text[k + 1:]
        else:
            tok.text = wide[tok.text]
    elif kind == 'empty_block':
        # an Enum needs at least one item, an indexes block at least one index
        opens = [i for i in real if lines[i].kind in ('enum_open', 'indexes_open')]
        if not opens:
            return None
        i = draw(st.sampled_from(opens))
        close = 'enum_close' if lines[i].kind == 'enum_open' else 'indexes_close'
        j = i + 1
        while lines[j].kind != close:
            j += 1
        lines = lines[:i + 1] + [l for l in lines[i + 1:j] if l.kind in ('blank', 'comment')] + lines[j:]
    elif kind == 'dup_type_args':
        c = toks_where(lambda l, t: l.kind == 'column' and t.cls == 'type' and not t.text.endswith('[]'))
        if not c:
            return None
        i, j = draw(st.sampled_from(c))
        lines[i].toks[j].text += draw(st.sampled_from(['(1)(2)', '(3)'])) if not lines[i].toks[j].text.endswith(')') else '(9)'
        if not lines[i].toks[j].text.endswith(')(2)') and not lines[i].toks[j].text.endswith(')(9)'):
            lines[i].toks[j].text += '(2)'
    elif kind == 'garbage_end':
        lines.append(Line('fault', (), [Tok(draw(st.sampled_from(STRAY + ['}', ']', '{', '['])), 'fault')]))
    elif kind == 'garbage_start':
        lines.insert(0, Line('fault', (), [Tok(draw(st.sampled_from(STRAY + ['}', ']'])), 'fault')]))
    elif kind == 'truncate':
        # cut the document inside a brace-delimited element: the closing brace is lost
        closes = [i for i in real if lines[i].kind.endswith('_close')]
        if not closes:
            return None
        i = draw(st.sampled_from(closes))
        lines = lines[:i]
        if not _real_lines(lines):
            return None
    return kind, lines


def outcome(text, props):
    from pydbml import PyDBML
    try:
        PyDBML.parse(text, allow_properties=True) if props else PyDBML.parse(text)
    except BaseException as e:  # noqa
        return e
    return None


def other_routes_accept(text, props):
    """Names of the other documented source routes that return a database for this (malformed) text."""
    import os
    import tempfile
    from pathlib import Path
    from pydbml import PyDBML
    kw = {'allow_properties': True} if props else {}
    fd, path = tempfile.mkstemp(prefix='pbt-c07-', suffix='.dbml')
    accepted = []
    try:
        with os.fdopen(fd, 'w', encoding='utf8', newline='') as fh:
            fh.write(text)
        routes = [('PyDBML(str)', lambda: PyDBML(text, **kw)), ('PyDBML(Path)', lambda: PyDBML(Path(path), **kw))]
        if not props:
            routes += [('parse_file(str)', lambda: PyDBML.parse_file(path)), ('parse_file(Path)', lambda: PyDBML.parse_file(Path(path)))]
        for name, thunk in routes:
            try:
                r = thunk()
            except Exception:  # noqa
                continue
            if type(r).__name__ == 'Database':
                accepted.append(name)
    finally:
        os.unlink(path)
    return accepted


PROBE = 'Table probe_after_reject {\n  id int\n}\n'
_PROBE_EXPECT = {}


def probe_leak(props, case, kind, size):
    """No fragment of a rejected document leaks into a returned result: the next (valid) parse is unaffected."""
    from pydbml import PyDBML
    from ..extract import extract
    try:
        got = extract(PyDBML.parse(PROBE, allow_properties=True) if props else PyDBML.parse(PROBE))
    except Exception as e:  # noqa
        return [Viol(f'c07:leak:probe-raises:{type(e).__name__}', f'after a rejected document (fault: {kind}) a valid document is rejected: {e}', case, size=size)]
    want = dict(project=None, enums=[], refs=[], groups=[], stickies=[])
    bad = [k for k, v in want.items() if got[k] != v]
    if bad or [t['name'] for t in got['tables']] != ['probe_after_reject'] or len(got['tables'][0]['columns']) != 1:
        return [Viol('c07:leak', f'a fragment of the rejected document (fault: {kind}) leaked into the next result: tables '
                                 f'{[t["name"] for t in got["tables"]]}, enums {len(got["enums"])}, refs {len(got["refs"])}, '
                                 f'groups {len(got["groups"])}, stickies {len(got["stickies"])}, project {got["project"] is not None}', case, size=size)]
    return []


def judge(kind, text, props, case):
    import pyparsing as pp
    e = outcome(text, props)
    leak = probe_leak(props, case, kind, len(text)) if e is not None else []
    if leak:
        return leak
    if e is None:
        return [Viol(f'c07:accepted:{kind}', f'malformed document (fault: {kind}) was parsed into a database', case, size=len(text))]
    if not isinstance(e, (pp.ParseBaseException, SyntaxError)):
        return [Viol(f'c07:not-a-syntax-error:{kind}:{type(e).__name__}',
                     f'malformed document (fault: {kind}) passed the syntax phase: {type(e).__name__}: {str(e)[:150]}', case, size=len(text))]
    acc = other_routes_accept(text, props) if text else []
    if acc:
        return [Viol(f'c07:accepted-by-route:{acc[0]}', f'malformed document (fault: {kind}) is rejected by PyDBML.parse but parsed into a database by {acc}', case, size=len(text))]
    return []


@st.composite
def cases(draw, feats, sizes):
    if draw(st.booleans()):
        feats = frozenset(feats - {'props'})      # half of the documents are parsed with the default options
    s, text, lines = draw(gen.documents(feats, sizes, min_tables=1))
    lines = draw(with_comments(lines))
    text = render(lines, '\n', True)
    f = draw(fault(lines))
    return s, text, f, draw(st.integers(0, 3)) == 0


BOM = '\ufeff'


def evaluate(c, ctx: Ctx = None):
    s, text, f = c[:3]
    bom = BOM if (len(c) > 3 and c[3]) else ''
    if f is None:
        if ctx is not None:
            ctx.extra['fault_not_applicable'] = ctx.extra.get('fault_not_applicable', 0) + 1
        return []
    kind, flines = f
    if outcome(bom + text, s.allow_properties) is not None:
        if ctx is not None:
            ctx.extra['control_rejected'] = ctx.extra.get('control_rejected', 0) + 1
        return []
    body = render(flines, '\n', True)
    if body.startswith(BOM) and not bom and not body.startswith(BOM + BOM):
        # a single U+FEFF that is the very first character IS a byte-order mark: not a fault
        # (two or more of them are: only one leading mark is ignored, on every route)
        if ctx is not None:
            ctx.extra['fault_not_applicable'] = ctx.extra.get('fault_not_applicable', 0) + 1
        return []
    ftext = bom + body      # a leading byte-order mark is ignored; it must not excuse anything else
    case = dict(kind=kind, text=ftext, base=bom + text, allow_properties=s.allow_properties)
    viols = judge(kind, ftext, s.allow_properties, case)
    if ctx is not None:
        sample = dict(kind=kind, text=ftext) if len(ftext) < 400 and len(ctx.samples) < ctx.MAX_SAMPLES else None
        ctx.record(thash(ftext), True, [f'kind:{kind}'] + (['with_bom'] if bom else []), sample)
    return viols


def replay(case):
    return judge(case['kind'], case['text'], case.get('allow_properties'), case)


def shard(ctx: Ctx):
    quick = ctx.tier == 'quick'
    sizes = gen.Sizes(tables=3, columns=4, indexes=2, enums=2, items=3, refs=4, groups=1, stickies=1, props=2)
    hyp_run(ctx, 'faults', cases(strict_features(), sizes), lambda c: evaluate(c, ctx), 250 if quick else 2500)
