"""C03 — SQL DDL states exactly the model: types, tables, columns, keys, indexes, notes.

Oracle MODEL via the independent SQL reader: the expected DDL structure is computed from the
abstract schema; `.sql` of the parsed and of the API-built database is read back line-structurally
and compared (multisets of statements, column lists in order, each clause present iff set).
"""
from __future__ import annotations

from hypothesis import strategies as st

from .. import gen, model
from ..core import Ctx, Viol, hyp_run, thash
from ..sqlcheck import check_c03
from ..sqlread import parse as sqlparse
from . import sqlcommon as C
from .c01 import classify

RULE = ('schemas x {parsed, API-built}; .sql read back by an independent reader and compared with the DDL '
        'structure computed from the schema. non-trivial: a table with >= 2 of {non-public schema, index, note, '
        'pk column(s)/pk index, enum-typed column, default}; distinct by sha1 of the SQL text')
ASSUMPTIONS = ['defaults and expressions are single-line (the reader is line-structural)',
               'spelling of boolean defaults and the quote neutralisation style are not constrained (statement is silent)']
FLOORS = {'quick': {'same_name_two_schemas': 100, 'falsy_default': 10, 'composite_pk': 10, 'pk_index': 10, 'nonpublic_index': 10, 'nonpublic_note': 10,
                    'enum_col_nonpublic': 5},
          'thorough': {'falsy_default': 100, 'composite_pk': 100, 'pk_index': 100, 'nonpublic_index': 100,
                       'nonpublic_note': 100, 'enum_col_nonpublic': 50}}


def sql_classes(s):
    cls = []
    for t in s.tables:
        if sum(c.pk for c in t.columns) > 1:
            cls.append('composite_pk')
        if any(ix.pk for ix in t.indexes):
            cls.append('pk_index')
        if t.schema != 'public' and any(not ix.pk for ix in t.indexes):
            cls.append('nonpublic_index')
        if t.schema != 'public' and (t.note or any(c.note for c in t.columns)):
            cls.append('nonpublic_note')
        if any(c.default in (('int', 0), ('float', 0.0), ('bool', False), ('str', '')) for c in t.columns):
            cls.append('falsy_default')
    return sorted(set(cls))


def nontrivial(s) -> bool:
    for t in s.tables:
        n = sum([t.schema != 'public', bool(t.indexes), bool(t.note or any(c.note for c in t.columns)),
                 any(c.pk for c in t.columns) or any(ix.pk for ix in t.indexes),
                 any(c.type[0] == 'enum' for c in t.columns), any(c.default is not None for c in t.columns)])
        if n >= 2:
            return True
    return False


def check_db(s, db, case):
    sql, v = C.render_sql(db, case)
    if v:
        return [v], None
    case = dict(case, sql=sql)
    p = sqlparse(sql)
    return [Viol(f'c03:{key}', msg, case, size=len(sql)) for key, msg in check_c03(s, p)], sql


def evaluate(s, style, ctx: Ctx = None, gen_name='?', script=()):
    viols = []
    for how, db, text in C.databases(s, style, ctx):
        case = dict(schema=model.to_json(s), how=how, text=text, gen=gen_name)
        vs, sql = check_db(s, db, case)
        viols += vs
        if script and not vs:
            # second phase: the database just rendered is edited in place and rendered again
            try:
                s2 = C.edited(s, db, script)
            except Exception as e:  # noqa
                s2 = None
                viols.append(Viol(f'c03:edit-raised:{type(e).__name__}', f'in-place edit raised {type(e).__name__}: {e}', dict(case, script=[list(x) for x in script])))
            if s2 is not None:
                case2 = dict(case, script=[list(x) for x in script], phase='edited')
                vs2, _ = check_db(s2, db, case2)
                viols += [Viol(v.bucket + ':after-edit', 'after render, in-place edits and a second render: ' + v.message, case2, size=v.size) for v in vs2]
                if ctx is not None:
                    ctx.record(thash('edited' + how + model.to_json(s2).__repr__()), nontrivial(s2), ['phase:edited', f'how:{how}'])
        if ctx is not None:
            nt = nontrivial(s)
            sample = dict(construction=how, sql=sql) if nt and sql and len(sql) < 800 and len(ctx.samples) < ctx.MAX_SAMPLES else None
            ctx.record(thash(how + (sql or '')), nt, classify(s, None) + sql_classes(s) + [f'how:{how}', f'gen:{gen_name}'], sample)
    return viols


def replay(case):
    from pydbml import PyDBML
    from ..build import build
    s = model.from_json(case['schema'])
    if case.get('how') == 'parsed':
        db = PyDBML.parse(case['text'], allow_properties=True) if s.allow_properties else PyDBML.parse(case['text'])
    else:
        db = build(s)
    base = {k: v for k, v in case.items() if k != 'sql'}
    if case.get('phase') == 'edited':
        db.sql
        s2 = C.edited(s, db, [tuple(x) for x in case['script']])
        return check_db(s2, db, base)[0]
    return check_db(s, db, base)[0]


def shard(ctx: Ctx):
    quick = ctx.tier == 'quick'
    sizes = gen.QUICK if quick else gen.THOROUGH
    n = 120 if quick else 1200
    hyp_run(ctx, 'parsed+built', st.tuples(C.cases(C.parse_features(), sizes, min_tables=1), C.edit_scripts()),
            lambda c: evaluate(c[0][0], c[0][1], ctx, 'parse-domain', c[1]), n)
    hyp_run(ctx, 'built-only', C.cases(C.built_features(), sizes, with_style=False, min_tables=1),
            lambda c: evaluate(c[0], None, ctx, 'api-domain'), n)
