"""C06 — rule-breaking documents are rejected with the error belonging to the rule.

Domain: a valid generated schema + exactly one injected violation (single fault by construction),
written by the independent writer in a random style, the clashing declarations at random positions.
Oracle EXCEPTION-CLASS: PyDBML(text) must raise, and the class must be the rule's.  Control arm:
the un-injected document parses (otherwise the case is discarded and counted).
"""
from __future__ import annotations

import copy

from hypothesis import strategies as st

from .. import gen, model
from ..core import Ctx, Viol, hyp_run, thash
from ..lib import exc_key
from ..model import AColumn, AEnum, AEnumItem, AGroup, AIndex, ARef, ASchema, ATable
from ..surface import Style, write
from .c01 import strict_features

RULE = ('valid schema + one injected rule violation (kinds: dup_table, reused_alias, alias_eq_fullname, '
        'fullname_eq_alias, dup_enum, dup_group, table_twice_in_group, dup_ref over form pairs {inline, standalone}^2, '
        'no_columns, ref/inline-ref to missing table/column, index on missing column, group with missing table), '
        'random positions and spellings. every case is non-trivial; distinct by sha1 of the text')
ASSUMPTIONS = ['duplicates that differ only in a comment are not generated (the statement lists endpoints, kind, name, actions)']
KINDS = ['dup_table', 'dup_table_same', 'reused_alias', 'alias_eq_fullname', 'fullname_eq_alias', 'dup_enum', 'dup_group',
         'table_twice_in_group', 'dup_ref_ss', 'dup_ref_is', 'dup_ref_si', 'dup_ref_ii', 'no_columns', 'no_columns_note',
         'ref_missing_table', 'ref_missing_column', 'inline_missing_table', 'inline_missing_column',
         'index_missing_column', 'group_missing_table']
FLOORS = {'quick': {f'kind:{k}': 8 for k in KINDS}, 'thorough': {f'kind:{k}': 150 for k in KINDS}}

DBV = 'DatabaseValidationError'
EXPECT = {
    'dup_table': DBV, 'dup_table_same': DBV, 'reused_alias': DBV, 'alias_eq_fullname': DBV, 'fullname_eq_alias': DBV,
    'dup_enum': DBV, 'dup_group': DBV, 'table_twice_in_group': 'ValidationError',
    'dup_ref_ss': DBV, 'dup_ref_is': DBV, 'dup_ref_si': DBV, 'dup_ref_ii': DBV,
    'no_columns': 'SyntaxError', 'no_columns_note': 'SyntaxError',
    'ref_missing_table': 'TableNotFoundError', 'ref_missing_column': 'ColumnNotFoundError',
    'inline_missing_table': 'TableNotFoundError', 'inline_missing_column': 'ColumnNotFoundError',
    'index_missing_column': 'ColumnNotFoundError', 'group_missing_table': 'TableNotFoundError',
}


def _insert_layout(draw, s: ASchema, kind: str, idx: int, after_tables=False):
    lay = list(s.get_layout())
    lo = 0
    if after_tables:
        lo = max([i for i, x in enumerate(lay) if x[0] == 'table'], default=-1) + 1
    lay.insert(draw(st.integers(lo, len(lay))), (kind, idx))
    s.layout = lay


def _fresh(s: ASchema, base: str) -> str:
    names = {t.name for t in s.tables} | {t.alias for t in s.tables if t.alias} | {e.name for e in s.enums}
    n = base
    k = 0
    while n in names:
        k += 1
        n = f'{base}{k}'
    return n


def _ghost(draw, s: ASchema, schemas):
    """a (schema, name) no table has: a fresh name, or the name / alias of an existing table under a schema where
    no such table lives (the bare name alone must not decide the lookup)"""
    keys = {t.key for t in s.tables}
    aliases = {t.alias for t in s.tables if t.alias}
    how = draw(st.sampled_from(['fresh', 'fresh', 'name_elsewhere', 'name_elsewhere', 'alias_elsewhere']))
    if how == 'name_elsewhere':
        t = draw(st.sampled_from(s.tables))
        cands = [(sc, t.name) for sc in list(schemas) + ['nosuch'] if (sc, t.name) not in keys and t.name not in aliases]
        if cands:
            return draw(st.sampled_from(cands)), how
    if how == 'alias_elsewhere' and aliases:
        a = draw(st.sampled_from(sorted(aliases)))
        cands = [(sc, a) for sc in list(schemas) + ['nosuch'] if sc != 'public' and (sc, a) not in keys]
        if cands:
            return draw(st.sampled_from(cands)), how
    return (draw(st.sampled_from(list(schemas))), _fresh(s, 'ghost')), 'fresh'


@st.composite
def faulty(draw, feats, sizes):
    base = draw(gen.schemas(feats, sizes, min_tables=2))
    s = copy.deepcopy(base)
    kind = draw(st.sampled_from(KINDS))
    ghost_how = None
    t = draw(st.sampled_from(s.tables))
    other = draw(st.sampled_from([x for x in s.tables if x is not t]))
    if kind in ('dup_table', 'dup_table_same'):
        if kind == 'dup_table_same':
            d = copy.deepcopy(t)
            d.alias = None
        else:
            d = ATable(t.schema, t.name, [AColumn('other_col', ('plain', 'int'))])
        for c in d.columns:
            c.refs = []
        s.tables.append(d)
        _insert_layout(draw, s, 'table', len(s.tables) - 1)
    elif kind == 'reused_alias':
        a = t.alias or _fresh(s, 'shared_alias')
        t.alias = a
        other.alias = a
    elif kind == 'alias_eq_fullname':
        # the aliased table is declared after the table whose full name it takes
        d = ATable('public', _fresh(s, 'aliased'), [AColumn('id', ('plain', 'int'))], alias=f'{t.schema}.{t.name}')
        s.tables.append(d)
        lay = list(s.get_layout())
        pos = [i for i, x in enumerate(lay) if x == ('table', s.tables.index(t))][0]
        lay.insert(draw(st.integers(pos + 1, len(lay))), ('table', len(s.tables) - 1))
        s.layout = lay
    elif kind == 'fullname_eq_alias':
        # ... or before it: then the full name meets an existing alias key
        d = ATable('public', _fresh(s, 'aliased'), [AColumn('id', ('plain', 'int'))], alias=f'{t.schema}.{t.name}')
        s.tables.append(d)
        lay = list(s.get_layout())
        pos = [i for i, x in enumerate(lay) if x == ('table', s.tables.index(t))][0]
        lay.insert(draw(st.integers(0, pos)), ('table', len(s.tables) - 1))
        s.layout = lay
    elif kind == 'dup_enum':
        if not s.enums:
            s.enums.append(AEnum(draw(st.sampled_from(['public', 's1'])), _fresh(s, 'an_enum'), [AEnumItem('a')]))
            _insert_layout(draw, s, 'enum', 0)
        e = draw(st.sampled_from(s.enums))
        s.enums.append(AEnum(e.schema, e.name, [AEnumItem('zzz')] if draw(st.booleans()) else copy.deepcopy(e.items)))
        _insert_layout(draw, s, 'enum', len(s.enums) - 1)
    elif kind == 'dup_group':
        if not s.groups:
            s.groups.append(AGroup('a group', [t.key]))
            _insert_layout(draw, s, 'group', 0)
        g = draw(st.sampled_from(s.groups))
        s.groups.append(AGroup(g.name, [other.key] if draw(st.booleans()) else list(g.items)))
        _insert_layout(draw, s, 'group', len(s.groups) - 1)
    elif kind == 'table_twice_in_group':
        items = [x.key for x in draw(st.lists(st.sampled_from(s.tables), max_size=3, unique_by=lambda x: x.key))]
        items = [k for k in items if k != t.key]
        for _ in range(2):
            items.insert(draw(st.integers(0, len(items))), t.key)
        s.groups.append(AGroup(_fresh(s, 'twice') + str(len(s.groups)), items))
        _insert_layout(draw, s, 'group', len(s.groups) - 1)
    elif kind.startswith('dup_ref'):
        f1, f2 = kind[-2], kind[-1]
        rk = draw(st.sampled_from(['>', '<', '-', '<>']))
        c1 = draw(st.sampled_from(t.columns)).name
        c2 = draw(st.sampled_from(other.columns)).name
        plain = 'i' in (f1, f2)
        name = None if plain else draw(st.none() | st.just('same name'))
        upd = None if plain else draw(st.none() | st.sampled_from(gen.ACTIONS))
        dele = None if plain else draw(st.none() | st.sampled_from(gen.ACTIONS))
        # drop any pre-existing equal reference so that the injected pair is the only duplicate
        sig = (rk, t.key, [c1], other.key, [c2], name, upd, dele)

        def same(r):
            return (r.kind, r.t1, r.c1, r.t2, r.c2, r.name, r.on_update, r.on_delete) == sig
        for tt in s.tables:
            for c in tt.columns:
                c.refs = [r for r in c.refs if not same(r)]
        keep = [i for i, r in enumerate(s.refs) if not same(r)]
        remap = {old: new for new, old in enumerate(keep)}
        s.layout = [(k, remap[i]) if k == 'ref' else (k, i) for k, i in s.get_layout() if k != 'ref' or i in remap]
        s.refs = [s.refs[i] for i in keep]
        for f in (f1, f2):
            r = ARef(rk, t.key, [c1], other.key, [c2], name=name, on_update=upd, on_delete=dele, inline=(f == 'i'))
            if f == 'i':
                t.col(c1).refs.append(r)
            else:
                s.refs.append(r)
                _insert_layout(draw, s, 'ref', len(s.refs) - 1)
    elif kind in ('no_columns', 'no_columns_note'):
        d = ATable(draw(st.sampled_from(['public', 's1'])), _fresh(s, 'empty'), [],
                   note='only a note' if kind == 'no_columns_note' else None)
        s.tables.append(d)
        _insert_layout(draw, s, 'table', len(s.tables) - 1)
    elif kind == 'ref_missing_table':
        ghost, ghost_how = _ghost(draw, s, ['public', t.schema])
        r = ARef(draw(st.sampled_from(['>', '<', '-', '<>'])), t.key, [t.columns[0].name], ghost, ['id'])
        if draw(st.booleans()):
            r.t1, r.c1, r.t2, r.c2 = r.t2, r.c2, r.t1, r.c1
        s.refs.append(r)
        _insert_layout(draw, s, 'ref', len(s.refs) - 1)
    elif kind == 'ref_missing_column':
        r = ARef(draw(st.sampled_from(['>', '<', '-', '<>'])), t.key, [t.columns[0].name], other.key, ['no_such_column'])
        if draw(st.booleans()):
            r.t1, r.c1, r.t2, r.c2 = r.t2, r.c2, r.t1, r.c1
        s.refs.append(r)
        _insert_layout(draw, s, 'ref', len(s.refs) - 1)
    elif kind == 'inline_missing_table':
        ghost, ghost_how = _ghost(draw, s, ['public', other.schema])
        c = draw(st.sampled_from(t.columns))
        c.refs.append(ARef(draw(st.sampled_from(['>', '<', '-'])), t.key, [c.name], ghost, ['id'], inline=True))
    elif kind == 'inline_missing_column':
        c = draw(st.sampled_from(t.columns))
        c.refs.append(ARef(draw(st.sampled_from(['>', '<', '-'])), t.key, [c.name], other.key, ['no_such_column'], inline=True))
    elif kind == 'index_missing_column':
        subj = [('col', 'no_such_column')]
        if draw(st.booleans()):
            subj.insert(draw(st.integers(0, 1)), ('col', t.columns[0].name))
        t.indexes.insert(draw(st.integers(0, len(t.indexes))), AIndex(subj, unique=draw(st.booleans())))
    elif kind == 'group_missing_table':
        ghost, ghost_how = _ghost(draw, s, ['public', t.schema])
        items = [other.key, ghost]
        if draw(st.booleans()):
            items.reverse()
        s.groups.append(AGroup(_fresh(s, 'grp') + str(len(s.groups)), items))
        _insert_layout(draw, s, 'group', len(s.groups) - 1)
    return base, s, kind, draw(gen.styles()), ghost_how


def outcome(text, props):
    from pydbml import PyDBML
    try:
        PyDBML.parse(text, allow_properties=True) if props else PyDBML.parse(text)
    except BaseException as e:  # noqa
        return e
    return None


def judge(kind, text, props, case):
    e = outcome(text, props)
    want = EXPECT[kind]
    if e is None:
        return [Viol(f'c06:accepted:{kind}', f'a document breaking rule {kind!r} was parsed into a database', case, size=len(text))]
    names = [c.__name__ for c in type(e).__mro__]
    if want not in names:
        return [Viol(f'c06:wrong-error:{kind}:{type(e).__name__}',
                     f'rule {kind!r}: raised {type(e).__name__} ({str(e)[:150]}), expected {want}', case, size=len(text))]
    return []


def evaluate(c, ctx: Ctx = None):
    base, s, kind, style = c[:4]
    ghost_how = c[4] if len(c) > 4 else None
    btext, _ = write(base, style)
    if outcome(btext, base.allow_properties) is not None:
        if ctx is not None:
            ctx.extra['control_rejected'] = ctx.extra.get('control_rejected', 0) + 1
        return []
    text, _ = write(s, style)
    case = dict(kind=kind, text=text, allow_properties=s.allow_properties, ghost=ghost_how)
    viols = judge(kind, text, s.allow_properties, case)
    if ctx is not None:
        sample = dict(kind=kind, text=text) if len(text) < 500 and len(ctx.samples) < ctx.MAX_SAMPLES else None
        ctx.record(thash(text), True, [f'kind:{kind}'] + ([f'ghost:{ghost_how}'] if ghost_how else []), sample)
    return viols


def replay(case):
    return judge(case['kind'], case['text'], case.get('allow_properties'), case)


def shard(ctx: Ctx):
    quick = ctx.tier == 'quick'
    sizes = gen.Sizes(tables=4, columns=3, indexes=1, enums=2, items=2, refs=3, groups=1, stickies=1, props=1)
    hyp_run(ctx, 'faulty', faulty(strict_features(), sizes), lambda c: evaluate(c, ctx), 150 if quick else 1500)
