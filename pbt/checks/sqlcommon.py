"""Shared driver of the SQL-side checks C03 / C04 / C18: build the databases of one schema both
ways (parsed from an independently written document, and through the public classes), render
`.sql`, read it back with the independent reader."""
from __future__ import annotations

from hypothesis import strategies as st

from .. import findings as F
from .. import gen, model
from ..build import build
from ..core import Ctx, Viol, thash
from ..sqlread import parse as sqlparse
from ..surface import Style, write
from ..lib import exc_key

# sub-domains the line-structural reader cannot read (newline inside a default / expression)
UNREADABLE = {'multiline_default'}
# sub-domains the *parser* rejects while the finding is open: API-built arm only
PARSER_BLOCKED = {'dot_in_name': 'F-DOT', 'ref_col_trim': 'F-REFSPLIT', 'kw_prefix_name': 'F-KWPREFIX'}


def parse_features():
    feats = set(gen.ALL_FEATURES) - UNREADABLE - {'float_exp', 'prop_newline'}
    for feat, fid in PARSER_BLOCKED.items():
        if F.is_open(fid):
            feats.discard(feat)
    return frozenset(feats)


def built_features():
    return frozenset(set(gen.ALL_FEATURES) - UNREADABLE - {'prop_newline'})


def databases(s, style=None, ctx=None):
    """[(how, db, text|None)] for the constructions that apply."""
    from pydbml import PyDBML
    out = []
    if style is not None:
        text, _ = write(s, style)
        try:
            db = PyDBML.parse(text, allow_properties=True) if s.allow_properties else PyDBML.parse(text)
            out.append(('parsed', db, text))
        except Exception:  # noqa -- a rejected well-formed document is C01's business, not the SQL checks'
            if ctx is not None:
                ctx.extra['source_rejected'] = ctx.extra.get('source_rejected', 0) + 1
    out.append(('built', build(s), None))
    return out


def render_sql(db, case):
    try:
        return db.sql, None
    except Exception as e:  # noqa
        return None, Viol(f'render:{exc_key(e)}', f'.sql raised {type(e).__name__}: {e}', case)


def cases(feats, sizes, with_style=True, **kw):
    @st.composite
    def c(draw):
        s = draw(gen.schemas(feats, sizes, **kw))
        for t in s.tables:
            for ix in t.indexes:
                if ix.name:      # an index name becomes a double-quoted SQL identifier: no '"' inside
                    ix.name = ix.name.replace('"', "''")
        return s, (draw(gen.styles()) if with_style else None)
    return c()


EDIT = None


def edit_scripts(max_size=4):
    """Edit scripts in the format of C10 (applied after a first rendering: 'every database' includes the ones
    reached by rendering, editing in place and rendering again)."""
    from . import c10
    edit = st.tuples(st.sampled_from(c10.EDITS), st.integers(0, 20), st.integers(0, 20), st.integers(0, 40))
    return st.lists(edit, max_size=max_size)


def refused_calls(db) -> bool:
    """Calls the library refuses (each raises on the unchanged tree); a refused call must leave no trace, so the
    renderings judged afterwards still have to state the model.  Returns False when the content of the database
    changed (a call was not refused after all: the container's business, property C09), the caller then skips the phase."""
    from pydbml.classes import Column, Enum, EnumItem, Index, Reference, Table, TableGroup
    from ..extract import extract
    before = extract(db)
    calls = []
    for a in db.tables:
        ix = next((i for i in a.indexes if any(isinstance(x, Column) for x in i.subjects)), None)
        for b in db.tables:
            if ix is not None and b is not a:
                calls.append(lambda b=b, ix=ix: b.add_index(ix))
    for t in db.tables[:2]:
        twin = Table(t.name, schema=t.schema)
        twin.add_column(Column('id', 'int'))
        calls += [lambda t=t: db.add(t), lambda twin=twin: db.add(twin), lambda t=t: t.delete_column(Column('pbt_nosuch', 'int')),
                  lambda t=t: t.delete_index(Index(['pbt_nosuch'])), lambda t=t: t.add_index('pbt_nosuch'), lambda t=t: t.add_column('pbt_nosuch')]
    for e in db.enums[:2]:
        calls.append(lambda e=e: db.add(Enum(e.name, [EnumItem('pbt')], schema=e.schema)))
    for g in db.table_groups[:2]:
        calls.append(lambda g=g: db.add(TableGroup(g.name, [])))
    x, y = Table('pbt_x'), Table('pbt_y')
    x.add_column(Column('id', 'int'))
    y.add_column(Column('id', 'int'))
    calls += [lambda: db.add(object()), lambda: db.delete(x), lambda: db.add(Reference('>', x.columns[0], y.columns[0]))]
    for r in db.refs[:2]:
        calls.append(lambda r=r: db.add(r))
    for c in calls:
        try:
            c()
        except Exception:  # noqa
            pass
    return extract(db) == before


def edited(s, db, script):
    """Apply an edit script to (a normalised copy of) the schema and to the live database.
    Returns the edited schema, or None if nothing was applied."""
    from . import c10
    s2 = c10.normalize(s)
    applied = 0
    if not refused_calls(db):
        return None
    for k, e in enumerate(script):
        if c10.apply_edit(s2, db, tuple(e), k):
            applied += 1
    return s2 if applied else None
