"""C14 — comments are captured on the element they belong to and are otherwise inert.

Base documents carry no comments; a Hypothesis-drawn comment plan places `//` lines and `/* */`
blocks at slots of the writer's line map.
(1) INERT (metamorphic): content of the commented document with `comment` erased == content of the base.
(2) CAPTURE (model): with comments only at slots whose meaning the statement fixes (block directly above a
    table, enum, enum item, index, reference, project, table group; trailing a reference, index, column or
    enum-item line; trailing wins) every element's `comment` is exactly the written text.
(3) RENDER: in .dbml / .sql the comment lines are prefixed `// ` / `-- ` on every line; deleting those lines
    gives the rendering of the comment-free model (no comment text inside a statement); PyDBML(db.dbml) has
    the same comments (ROUNDTRIP).
"""
from __future__ import annotations

import copy

from hypothesis import strategies as st

from .. import findings as F
from .. import gen, model
from ..build import build
from ..core import Ctx, Viol, hyp_run, thash
from ..extract import extract, strip_comments
from ..surface import Line, Style, render, write
from . import c01, c02

RULE = ('comment-free generated document x comment plan over the slots of the line map (own-line // and /* */ '
        'blocks before any line, trailing comments on any line; contents with quotes, braces, brackets, DBML/SQL '
        'fragments, non-ASCII). non-trivial: plan with >= 1 capturing and >= 1 inert slot (inert arm) or >= 2 '
        'captured comments (capture arm); distinct by sha1 of the commented text')
ASSUMPTIONS = ['comment text has no leading/trailing blanks and no "*/" (not preserved / not expressible)',
               'trailing comments on "Enum e {" and "indexes {" lines are used in the inert arm only: whether they belong to the first item is not fixed by the statement',
               'F-COLCOMMENT (open, pinned): a column comment is rendered above the column and is not re-captured; explained only at .tables[].columns[].comment']
FLOORS = {'quick': {'arm:inert': 150, 'arm:capture': 150, 'multi_line_comment': 40, 'block_comment': 60, 'trailing': 100,
                    'capture:both:index': 15, 'capture:both:enum_item': 15, 'capture:both:ref_short': 10, 'capture:trail:ref_body': 10},
          'thorough': {'arm:inert': 3000, 'arm:capture': 3000, 'multi_line_comment': 800, 'block_comment': 1200, 'trailing': 2000}}

CONTENTS = ['c', 'a comment', "it's", 'say "hi"', 'Table x {', '}', "'; DROP TABLE t; --", ']', '[pk]', "'''", 'é日本', '{0}', '{x}',
            'note: \'x\'', '// nested', '-- sql', 'Ref: a.b > c.d', '#fff', 'back\\slash', 'TODO: fix', '%s', '``', 'x' * 70, '/* open', 'ends with backslash \\', 'C:\\dir\\', '\\\\',
            # characters str.splitlines() breaks at but DBML does not: the comment goes on to the line feed
            'form\x0cfeed x int', 'ls\u2028Ref: a.b > c.d', 'nel\x85 y int [pk]', 'fs\x1cz', 'vt\x0bw int', 'ps\u2029}']
TOP_OPEN = {'project_open': 'project', 'enum_open': 'enum', 'table_open': 'table', 'ref_short': 'ref', 'ref_open': 'ref', 'group_open': 'group'}


def sanitize(s):
    """Base documents for C14: single-line notes without comment markers, no comments."""
    def fix(n):
        if n is None:
            return None
        if '\n' in n or '//' in n or '/*' in n or '--' in n:
            return 'plain note'
        return n
    for t in s.tables:
        t.note = fix(t.note)
        for c in t.columns:
            c.note = fix(c.note)
            if c.default and c.default[0] in ('str', 'expr') and ('\n' in c.default[1] or '--' in c.default[1] or '//' in c.default[1]):
                c.default = ('str', 'dflt')
            c.props = [(k, fix(v)) for k, v in c.props]
        for ix in t.indexes:
            ix.note = fix(ix.note)
            ix.name = fix(ix.name)
        t.props = [(k, fix(v)) for k, v in t.props]
    for e in s.enums:
        for i in e.items:
            i.note = fix(i.note)
    for g in s.groups:
        g.note = fix(g.note)
    for n in s.stickies:
        n.text = fix(n.text)
    if s.project:
        s.project.note = fix(s.project.note)
        s.project.items = [(k, fix(v)) for k, v in s.project.items]
    return s


PLACEHOLDER_KEYS = list('abcdefghijklmnopqrstuvwxyz0123456789') + ['name', 'table', 'col', 'ref', 'comment', 'c1', 'c!r', '0:>4', '', 'c}{c']


def placeholder_text():
    """comment text that looks like a template placeholder of some formatting mechanism (the renderers build their output
    with templates; no comment text may ever be taken for one)"""
    key = st.sampled_from(PLACEHOLDER_KEYS)
    shape = st.sampled_from(['{%s}', 'see {%s} and {%s}', '%%(%s)s', '${%s}', '$%s', '{{%s}}', '\\g<%s>', '{%s', '%s}'])
    return st.tuples(shape, key).map(lambda sk: sk[0].replace('%s', sk[1]).replace('%%', '%'))


def comment_strategy():
    content = st.one_of(st.sampled_from(CONTENTS), st.sampled_from(CONTENTS), placeholder_text())
    slashes = st.lists(content, min_size=1, max_size=3).map(lambda ls: ('//', ls))
    block = st.lists(content.filter(lambda c: '*/' not in c), min_size=1, max_size=3).map(lambda ls: ('/*', ls))
    return st.one_of(slashes, slashes, block)


def physical(form, lines_, indent, sp):
    if form == '//':
        return [f'{indent}//{sp}{l}' for l in lines_]
    return [indent + '/*' + '\n'.join(lines_) + '*/']


def render_commented(lines, above, trail, eol='\n'):
    """above: {line index (len(lines) = end of file): [physical comment lines]}; trail: {line index: ' // c'}"""
    out = []
    for i, l in enumerate(lines):
        out.extend(above.get(i, []))
        out.append(l.text() + trail.get(i, ''))
    out.extend(above.get(len(lines), []))
    return eol.join(out) + eol


def first_line_of(lines, path_prefix):
    for i, l in enumerate(lines):
        if l.toks and l.path[:len(path_prefix)] == path_prefix:
            return i
    return None


def _parse(text, props):
    from pydbml import PyDBML
    return PyDBML.parse(text, allow_properties=True) if props else PyDBML.parse(text)


# -- arm 1: inertness ---------------------------------------------------------------------------

@st.composite
def inert_cases(draw, feats, sizes):
    s = sanitize(draw(gen.schemas(feats, sizes, min_tables=1)))
    stl = draw(gen.styles())
    text, lines = write(s, stl)
    n = len(lines)
    k = draw(st.integers(1, 8))
    above, trail = {}, {}
    kinds = []
    for _ in range(k):
        i = draw(st.integers(0, n))
        if draw(st.booleans()) or i == n or not lines[i].toks:
            form, ls = draw(comment_strategy())
            above.setdefault(i, []).extend(physical(form, ls, draw(st.sampled_from(['', '  ', '\t'])), draw(st.sampled_from(['', ' ']))))
            kinds.append(('above', lines[i].kind if i < n else 'eof', form, len(ls)))
        else:
            c = draw(st.sampled_from(CONTENTS))
            if lines[i].kind.endswith('_close') and draw(st.integers(0, 2)) == 0 and '*/' not in c:
                # several comments may follow a closing brace
                trail[i] = f' /*{c}*/ /* second */ // third'
                kinds.append(('trail', lines[i].kind, '/*', 1))
            elif draw(st.integers(0, 3)) == 0 and '*/' not in c:
                trail[i] = f' /*{c}*/'
                kinds.append(('trail', lines[i].kind, '/*', 1))
            else:
                trail[i] = draw(st.sampled_from([' // ', ' //', '//', '  // '])) + c
                kinds.append(('trail', lines[i].kind, '//', 1))
    return s, text, render_commented(lines, above, trail), kinds


CAPTURING_ABOVE = set(TOP_OPEN) | {'enum_item', 'index'}
CAPTURING_TRAIL = {'column', 'index', 'enum_item', 'ref_short', 'ref_body'}


def eval_inert(c, ctx: Ctx = None):
    s, base_text, ctext, kinds = c
    case = dict(arm='inert', text=ctext, base=base_text, allow_properties=s.allow_properties)
    try:
        base = extract(_parse(base_text, s.allow_properties))
    except Exception:  # noqa
        if ctx is not None:
            ctx.extra['control_rejected'] = ctx.extra.get('control_rejected', 0) + 1
        return []
    viols = judge_inert(base, ctext, s.allow_properties, case)
    if ctx is not None:
        cap = any((w == 'above' and k in CAPTURING_ABOVE) or (w == 'trail' and k in CAPTURING_TRAIL) for w, k, _, _ in kinds)
        inert = any(not ((w == 'above' and k in CAPTURING_ABOVE) or (w == 'trail' and k in CAPTURING_TRAIL)) for w, k, _, _ in kinds)
        cls = ['arm:inert'] + [f'slot:{w}:{k}' for w, k, _, _ in kinds]
        if any(f == '/*' for _, _, f, _ in kinds):
            cls.append('block_comment')
        if any(n > 1 for _, _, _, n in kinds):
            cls.append('multi_line_comment')
        if any(w == 'trail' for w, _, _, _ in kinds):
            cls.append('trailing')
        ctx.record(thash(ctext), cap and inert, cls, dict(arm='inert', text=ctext) if len(ctext) < 500 else None)
    return viols


def judge_inert(base, ctext, props, case):
    try:
        got = extract(_parse(ctext, props))
    except Exception as e:  # noqa
        return [Viol(f'c14:inert:rejected:{type(e).__name__}', f'adding comments made the document unparseable: {type(e).__name__}: {str(e)[:200]}', case, size=len(ctext))]
    out = []
    for path, exp, act in model.diff(strip_comments(base), strip_comments(got)):
        out.append(Viol(f'c14:inert:{model.path_class(path)}', f'adding comments changed {path}: {exp!r} -> {act!r}', case, size=len(ctext)))
    return out


# -- arm 2+3: capture and rendering --------------------------------------------------------------

def capture_targets(s, lines):
    """[(element key, kind, line index of the element's first line, trailing-capable line index|None)]"""
    out = []
    for i, l in enumerate(lines):
        if not l.toks or l.part not in ('only', 'first'):
            continue
        last = i
        if l.part == 'first':
            j = i + 1
            while lines[j].part != 'last':
                j += 1
            last = j
        if l.kind in TOP_OPEN:
            trail = last if l.kind == 'ref_short' else None
            out.append((l.path, l.kind, i, trail))
        elif l.kind in ('enum_item', 'index'):
            out.append((l.path, l.kind, i, last))
        elif l.kind == 'column':
            out.append((l.path, 'column', None, last))
        elif l.kind == 'ref_body':
            out.append((l.path, 'ref_body', None, last))
    return out


def set_comment(s, path, text):
    kind = path[0]
    if kind == 'project':
        s.project.comment = text
    elif kind == 'enum':
        if len(path) == 2:
            s.enums[path[1]].comment = text
        else:
            s.enums[path[1]].items[path[3]].comment = text
    elif kind == 'table':
        if len(path) == 2:
            s.tables[path[1]].comment = text
        elif path[2] == 'column':
            s.tables[path[1]].columns[path[3]].comment = text
        elif path[2] == 'index':
            s.tables[path[1]].indexes[path[3]].comment = text
    elif kind == 'ref':
        s.refs[path[1]].comment = text
    elif kind == 'group':
        s.groups[path[1]].comment = text


@st.composite
def capture_cases(draw, feats, sizes):
    s = sanitize(draw(gen.schemas(feats, sizes, min_tables=1)))
    stl = draw(gen.styles())
    text, lines = write(s, stl)
    targets = capture_targets(s, lines)
    s2 = copy.deepcopy(s)
    above, trail = {}, {}
    stats = []
    if not targets:
        return s, s2, text, text, stats
    # stratified: up to two targets of every kind present, so that rare kinds (index, ref) are exercised
    by_kind = {}
    for t in targets:
        by_kind.setdefault(t[1], []).append(t)
    chosen = []
    for kind in sorted(by_kind):
        chosen += draw(st.lists(st.sampled_from(by_kind[kind]), min_size=0, max_size=2, unique_by=lambda t: t[0]))
    if not chosen:
        chosen = [draw(st.sampled_from(targets))]
    result = {}
    for path, kind, first, last in chosen:
        got = None
        trailing_set = False
        both = first is not None and last is not None and draw(st.booleans())
        if first is not None and (last is None or both or draw(st.booleans())):
            nblocks = draw(st.integers(1, 2))
            parts, phys = [], []
            for _ in range(nblocks):
                form, ls = draw(comment_strategy())
                parts.extend(ls)
                phys.extend(physical(form, ls, lines[first].indent, draw(st.sampled_from(['', ' ']))))
                stats.append(('above', kind, form, len(ls)))
            above.setdefault(first, []).extend(phys)
            got = '\n'.join(parts)
        if last is not None and (got is None or both):
            c = draw(st.sampled_from(CONTENTS))
            if draw(st.integers(0, 3)) == 0 and '*/' not in c:
                trail[last] = f' /*{c}*/'
                stats.append(('trail', kind, '/*', 1))
            else:
                trail[last] = draw(st.sampled_from([' // ', ' //', '  //'])) + c
                stats.append(('trail', kind, '//', 1))
            if got is not None:
                stats.append(('both', kind, '-', 1))
            got = c          # the trailing comment wins
            trailing_set = True
        # a block Ref has two lines that belong to the same element (opening line: above; body line: trailing)
        prev = result.get(path)
        if prev is None or trailing_set:
            result[path] = (got, trailing_set)
        elif prev is not None and not prev[1] and not trailing_set:
            result[path] = (got, False)
    for path, (got, _) in result.items():
        set_comment(s2, path, got)
    return s, s2, text, render_commented(lines, above, trail), stats


def strip_comment_lines(text: str, marker: str) -> str:
    # blank lines are layout (SQL puts one between a table's comment and its CREATE TABLE)
    return '\n'.join(l for l in text.split('\n') if l.strip() != '' and not l.lstrip(' ').startswith(marker))


def check_prefix(rendered: str, marker: str, comments, case, what):
    """every line of every comment appears as its own `<marker> <line>` line"""
    out = []
    lines = [l.lstrip(' ') for l in rendered.split('\n')]
    for c in comments:
        for cl in c.split('\n'):
            if f'{marker} {cl}' not in lines:
                out.append(Viol(f'c14:render:{what}:prefix', f'comment line {cl!r} is not emitted as "{marker} {cl}" in {what}', case, size=len(rendered)))
                break
    return out


def all_comments(s, for_sql=False):
    out = []
    for t in s.tables:
        out += [t.comment] + [c.comment for c in t.columns] + [i.comment for i in t.indexes]
    for e in s.enums:
        out += [e.comment] + [i.comment for i in e.items]
    out += [r.comment for r in s.refs]
    if not for_sql:
        out += [g.comment for g in s.groups] + ([s.project.comment] if s.project else [])
    return [c for c in out if c]


LINESEP = '\x0b\x0c\x1c\x1d\x1e\x85\u2028\u2029'


def judge_capture(s, s2, ctext, case):
    viols = _judge_capture(s, s2, ctext, case)
    if F.is_open('F-LINESEP') and any(ch in c for c in all_comments(s2) for ch in LINESEP):
        # open finding: such a character inside a comment is taken for a line boundary by the indentation helper of the
        # renderers.  It explains what the RENDERED texts do; what parsing captured is judged as strictly as ever.
        for v in viols:
            if v.finding is None and v.bucket.startswith(('c14:render:', 'c14:roundtrip:', 'c14:edit:')):
                v.finding = 'F-LINESEP'
    return viols


def _judge_capture(s, s2, ctext, case):
    viols = []
    v, content = c01.evaluate_text(s2, ctext, None, 'c14', None)
    for x in v:
        viols.append(Viol('c14:capture:' + x.bucket, x.message, case, size=len(ctext)))
    if viols or content is None:
        return viols
    db = _parse(ctext, s.allow_properties)
    base_db = build(s)
    built = build(s2)
    for what, marker in (('dbml', '//'), ('sql', '--')):
        try:
            r_c, r_b, r_built = getattr(db, what), getattr(base_db, what), getattr(built, what)
        except Exception as e:  # noqa
            viols.append(Viol(f'c14:render:{what}:raise', f'.{what} raised {type(e).__name__}: {e}', case, size=len(ctext)))
            continue
        viols += check_prefix(r_c, marker, all_comments(s2, what == 'sql'), case, what)
        if strip_comment_lines(r_c, marker) != strip_comment_lines(r_b, marker):
            viols.append(Viol(f'c14:render:{what}:statement', f'deleting the comment lines from .{what} does not give the comment-free rendering:\n'
                              + c02._first_diff(strip_comment_lines(r_b, marker), strip_comment_lines(r_c, marker)), case, size=len(ctext)))
        if r_c != r_built:
            viols.append(Viol(f'c14:render:{what}:api', f'.{what} of the parsed database differs from the API-built one with the same comments:\n'
                              + c02._first_diff(r_built, r_c), case, size=len(ctext)))
    # comments changed, removed or added through the API after the first rendering show up in the next one
    viols += edit_comments_phase(s2, db, case, len(ctext))
    db = _parse(ctext, s.allow_properties)
    # ROUNDTRIP of the comments through .dbml
    vs, _ = c02.check_db(db, case, None, s.allow_properties)
    for x in vs:
        fid = None
        if x.bucket == 'roundtrip:.tables[].columns[].comment' and F.is_open('F-COLCOMMENT'):
            fid = 'F-COLCOMMENT'
        viols.append(Viol('c14:roundtrip:' + x.bucket, x.message, case, finding=fid, size=len(ctext)))
    return viols


def edit_comments_phase(s2, db, case, size):
    s3 = copy.deepcopy(s2)
    k = [0]

    def nxt(old):
        k[0] += 1
        if old is None:
            return f'added {k[0]}' if k[0] % 3 == 0 else None
        return None if k[0] % 2 else f'{old} (edited {k[0]})'
    live_refs = list(db.refs)
    arefs = s3.all_refs()
    if (len(db.tables), len(db.enums), len(live_refs), len(db.table_groups)) != (len(s3.tables), len(s3.enums), len(arefs), len(s3.groups)):
        return []
    for t, lt in zip(s3.tables, db.tables):
        t.comment = lt.comment = nxt(t.comment)
        for c, lc in zip(t.columns, lt.columns):
            c.comment = lc.comment = nxt(c.comment)
        for i, li in zip(t.indexes, lt.indexes):
            i.comment = li.comment = nxt(i.comment)
    for e, le in zip(s3.enums, db.enums):
        e.comment = le.comment = nxt(e.comment)
        for i, li in zip(e.items, le.items):
            i.comment = li.comment = nxt(i.comment)
    for n, (r, lr) in enumerate(zip(arefs, live_refs)):
        if not r.inline:
            new = nxt(r.comment)
            r.comment = lr.comment = (f'{new} #{n}' if new else None)
    for g, lg in zip(s3.groups, db.table_groups):
        g.comment = lg.comment = nxt(g.comment)
    if s3.project is not None and db.project is not None:
        s3.project.comment = db.project.comment = nxt(s3.project.comment)
    out = []
    fresh = build(s3)
    for what in ('dbml', 'sql'):
        try:
            a, b = getattr(db, what), getattr(fresh, what)
        except Exception as e:  # noqa
            out.append(Viol(f'c14:edit:{what}:raise', f'.{what} raised {type(e).__name__} after comments were edited: {e}', case, size=size))
            continue
        if a != b:
            out.append(Viol(f'c14:edit:{what}', f'after changing / removing / adding comments through the API, .{what} differs from a fresh build '
                                                f'with the same comments:\n' + c02._first_diff(b, a), case, size=size))
    return out


def eval_capture(c, ctx: Ctx = None):
    s, s2, base_text, ctext, stats = c
    case = dict(arm='capture', text=ctext, schema=model.to_json(s), commented=model.to_json(s2))
    try:
        _parse(base_text, s.allow_properties)
    except Exception:  # noqa
        if ctx is not None:
            ctx.extra['control_rejected'] = ctx.extra.get('control_rejected', 0) + 1
        return []
    viols = judge_capture(s, s2, ctext, case)
    if ctx is not None:
        cls = ['arm:capture'] + [f'capture:{w}:{k}' for w, k, _, _ in stats]
        if any(f == '/*' for _, _, f, _ in stats):
            cls.append('block_comment')
        if any(n > 1 for _, _, _, n in stats):
            cls.append('multi_line_comment')
        if any(w == 'trail' for w, _, _, _ in stats):
            cls.append('trailing')
        ctx.record(thash(ctext), len(all_comments(s2)) >= 2, cls, dict(arm='capture', text=ctext) if len(ctext) < 500 else None)
    return viols


PLACEHOLDER_SHAPES = ['{%s}', 'see {%s} and {%s}', '%%(%s)s', '${%s}', '$%s', '{{%s}}', '\\g<%s>', '{%s', '%s}']


def placeholder_texts():
    return [sh.replace('%s', k).replace('%%', '%') for sh in PLACEHOLDER_SHAPES for k in PLACEHOLDER_KEYS]


def placeholder_doc():
    """a fixed document with every commentable kind of element (named short, unnamed block, inline and many-to-many
    references included)"""
    from ..model import AColumn, AEnum, AEnumItem, AGroup, AIndex, AProject, ARef, ASchema, ATable
    users = ATable('public', 'users', [AColumn('id', ('plain', 'int'), pk=True), AColumn('kind', ('enum', 'public', 'kinds')),
                                       AColumn('org', ('plain', 'int'))],
                   indexes=[AIndex([('col', 'id'), ('col', 'org')], unique=True, name='ix')], note='a note')
    orgs = ATable('s1', 'orgs', [AColumn('id', ('plain', 'int'), pk=True), AColumn('owner', ('plain', 'int'))])
    users.columns[2].refs = [ARef('>', users.key, ['org'], orgs.key, ['id'], inline=True)]
    refs = [ARef('<', users.key, ['id'], orgs.key, ['owner'], name='owned', on_delete='cascade'),
            ARef('-', orgs.key, ['owner'], users.key, ['id']),
            ARef('<>', users.key, ['id'], orgs.key, ['id'])]
    return ASchema(tables=[users, orgs], enums=[AEnum('public', 'kinds', [AEnumItem('a'), AEnumItem('b')])], refs=refs,
                   groups=[AGroup('g', [users.key])], project=AProject('p', [('k', 'v')]))


def placeholder_case(text, trailing):
    s = placeholder_doc()
    out, lines = write(s, Style())
    s2 = copy.deepcopy(s)
    above, trail = {}, {}
    for path, kind, first, last in capture_targets(s, lines):
        if kind == 'ref_body' and any(p == path and f is not None for p, _, f, _ in capture_targets(s, lines) if _ != 'ref_body'):
            continue        # a block Ref takes its comment above the opening line
        if first is not None and not (trailing and last is not None):
            above.setdefault(first, []).append(f'{lines[first].indent}// {text}')
        elif last is not None:
            trail[last] = ' // ' + text
        else:
            continue
        set_comment(s2, path, text)
    return s, s2, out, render_commented(lines, above, trail), []


def replay(case):
    if case.get('arm') == 'inert':
        props = bool(case.get('allow_properties'))
        base = extract(_parse(case['base'], props))
        return judge_inert(base, case['text'], props, case)
    s, s2 = model.from_json(case['schema']), model.from_json(case['commented'])
    return judge_capture(s, s2, case['text'], case)


def shard(ctx: Ctx):
    quick = ctx.tier == 'quick'
    sizes = gen.Sizes(tables=3, columns=3, indexes=3, enums=2, items=3, refs=6, groups=1, stickies=1, props=1)
    feats = frozenset((c01.strict_features() & c02.strict_features()) - {'multiline_settings_note'})
    n = 70 if quick else 700
    # exhaustive: every placeholder-like text (template keys x template syntaxes) as the comment of every commentable element
    texts = placeholder_texts()
    for k, ptxt in enumerate(texts):
        if k % ctx.nshards == ctx.shard:
            for trailing in (False, True):
                ctx.add(eval_capture(placeholder_case(ptxt, trailing), ctx))
    ctx.exhaustive_arms.append(f'{len(texts)} placeholder-like comment texts x (above, trailing) on every commentable element of a fixed document')
    hyp_run(ctx, 'inert', inert_cases(feats, sizes), lambda c: eval_inert(c, ctx), n)
    hyp_run(ctx, 'capture', capture_cases(feats, sizes), lambda c: eval_capture(c, ctx), n)
