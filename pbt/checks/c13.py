"""C13 — free text survives: notes normalise idempotently, no text breaks its literal.

Strings x sites.  (1) PARSE direction (MODEL): the independent writer spells T in each string style;
note sites must store a text satisfying the normalisation predicate, raw sites exactly T, all styles the
same value, re-feeding the stored value stores it again, and nothing else in the document changes.
(2) RENDER direction (ROUNDTRIP): for parsed and API-built databases carrying T, parse(db.dbml) has the
same content and rendering is a fixpoint -- so T can neither end its literal early nor alter a neighbour.
(3) SQL: every COMMENT ON literal has no raw single quote and equals the note with quotes neutralised;
expression text appears verbatim inside parentheses.
"""
from __future__ import annotations

import copy
import itertools

from hypothesis import strategies as st

from .. import findings as F
from .. import gen, model
from ..build import build
from ..core import Ctx, Viol, hyp_run, thash
from ..extract import extract
from ..model import (AColumn, AEnum, AEnumItem, AGroup, AIndex, AProject, ARef, ASchema, ASticky, ATable)
from ..sqlcheck import neutralised
from ..sqlread import parse as sqlparse
from ..surface import Style, write
from . import c02

RULE = ('strings x 12 text-bearing sites: exhaustive strings of length <= 3 (quick) / <= 4 (thorough) over the '
        'critical alphabet {a, space, newline, \', ", \\, `} plus Hypothesis text over a printable alphabet weighted to '
        'quotes, backslashes, backticks, braces, brackets, hashes, comment markers, non-ASCII, single- and multi-line. '
        'non-trivial: the string contains a quote, backslash, backtick, newline, comment marker or brace; '
        'distinct by sha1 of (string, arm)')
ASSUMPTIONS = ['text is over printable characters plus newline; tab is excluded (pyparsing expands tabs before parsing)',
               'an all-blank note text has no defined normal form (only absence of a crash is required)',
               'sites whose rendering is broken by an OPEN finding are excluded from the render arm for the triggering strings and exercised in zone mode']
CRIT = ['a', ' ', '\n', "'", '"', '\\', '`']
NOTE_SITES = ['table_note', 'column_note', 'index_note', 'enum_item_note', 'group_note', 'project_note', 'sticky']
RAW_SITES = ['project_value', 'table_prop', 'column_prop', 'default', 'index_name']
FLOORS = {'quick': {'arm:parse': 300, 'arm:render': 300, 'arm:sql': 200, 'multiline': 100},
          'thorough': {'arm:parse': 3000, 'arm:render': 3000, 'arm:sql': 2000, 'multiline': 1000}}


def schema_with(T, sites, expr=None):
    """A small schema carrying text T at the given sites (and expression text `expr`)."""
    col = AColumn('c1', ('plain', 'int'), pk=True)
    col2 = AColumn('c2', ('plain', 'varchar(20)'), unique=True)
    t = ATable('public', 'tab', [col, col2], header_color='#abc')
    other = ATable('s1', 'neighbour', [AColumn('id', ('plain', 'int'), note='neighbour note', default=('str', 'nb'))], note='after')
    ix = AIndex([('col', 'c1')], unique=True)
    e = AEnum('public', 'en', [AEnumItem('i1'), AEnumItem('i2', note='second')])
    g = AGroup('grp', [t.key], color='#123456')
    p = AProject('proj', [('k0', 'v0')])
    s = ASchema(tables=[t, other], enums=[e], groups=[g], project=p)
    s.refs = [ARef('>', other.key, ['id'], t.key, ['c1'], name='fk')]
    use_ix = False
    if 'table_note' in sites:
        t.note = T
    if 'column_note' in sites:
        col.note = T
    if 'index_note' in sites:
        ix.note = T
        use_ix = True
    if 'index_name' in sites:
        ix.name = T
        use_ix = True
    if 'enum_item_note' in sites:
        e.items[0].note = T
    if 'group_note' in sites:
        g.note = T
    if 'project_note' in sites:
        p.note = T
    if 'sticky' in sites:
        s.stickies = [ASticky('st', T), ASticky('st2', 'tail')]
    if 'project_value' in sites:
        p.items = [('k0', 'v0'), ('kt', T), ('k2', 'v2')]
    if 'table_prop' in sites:
        t.props = [('tp', T), ('tp2', 'x')]
        s.allow_properties = True
    if 'column_prop' in sites:
        col.props = [('cp', T)]
        col2.props = [('cp2', 'y')]
        s.allow_properties = True
    if 'default' in sites:
        col2.default = ('str', T)
    if expr is not None:
        other.columns.append(AColumn('ex', ('plain', 'int'), default=('expr', expr)))
        other.indexes.append(AIndex([('expr', expr)]))
    if use_ix:
        t.indexes.append(ix)
    return s


def site_value(content, site):
    t = content['tables'][0]
    if site == 'table_note':
        return t['note']
    if site == 'column_note':
        return t['columns'][0]['note']
    if site == 'index_note':
        return t['indexes'][0]['note']
    if site == 'index_name':
        return t['indexes'][0]['name']
    if site == 'enum_item_note':
        return content['enums'][0]['items'][0]['note']
    if site == 'group_note':
        return content['groups'][0]['note']
    if site == 'project_note':
        return content['project']['note']
    if site == 'sticky':
        return content['stickies'][0]['text']
    if site == 'project_value':
        return content['project']['items'][1][1]
    if site == 'table_prop':
        return t['props'][0][1]
    if site == 'column_prop':
        return t['columns'][0]['props'][0][1]
    if site == 'default':
        d = t['columns'][1]['default']
        return d[1] if isinstance(d, list) and d[0] == 'str' else ('!', d)
    raise KeyError(site)


def set_site(s, site, v):
    t = s.tables[0]
    if site == 'table_note':
        t.note = v
    elif site == 'column_note':
        t.columns[0].note = v
    elif site == 'index_note':
        t.indexes[0].note = v
    elif site == 'index_name':
        t.indexes[0].name = v
    elif site == 'enum_item_note':
        s.enums[0].items[0].note = v
    elif site == 'group_note':
        s.groups[0].note = v
    elif site == 'project_note':
        s.project.note = v
    elif site == 'sticky':
        s.stickies[0].text = v
    elif site == 'project_value':
        s.project.items[1] = ('kt', v)
    elif site == 'table_prop':
        t.props[0] = ('tp', v)
    elif site == 'column_prop':
        t.columns[0].props[0] = ('cp', v)
    elif site == 'default':
        t.columns[1].default = ('str', v)


def blank(line):
    return line.strip(' \t') == ''


def normal_form_problem(T, S):
    """The normalisation predicate of the statement; None if S is an admissible stored text for T."""
    tl = T.split('\n')
    if all(blank(l) for l in tl):
        return None
    a = 0
    while blank(tl[a]):
        a += 1
    b = len(tl)
    while blank(tl[b - 1]):
        b -= 1
    core = tl[a:b]
    sl = S.split('\n')
    if blank(sl[0]) or blank(sl[-1]):
        return 'stored text keeps a leading/trailing blank line'
    if len(sl) != len(core):
        return f'stored text has {len(sl)} lines, the written text {len(core)} between its first and last non-blank line'
    k = min(len(l) - len(l.lstrip(' \t')) for l in core if not blank(l))
    if min(len(l) - len(l.lstrip(' \t')) for l in sl if not blank(l)) != 0:
        return 'common indentation was not removed'
    for x, y in zip(core, sl):
        if not blank(x) and x[k:] != y:
            return f'line {x!r} stored as {y!r}, expected {x[k:]!r}'
        if blank(x) and not blank(y):
            return f'blank line stored as {y!r}'
    return None


def _parse(text, props):
    from pydbml import PyDBML
    return PyDBML.parse(text, allow_properties=True) if props else PyDBML.parse(text)


def sites_for(T):
    sites = list(NOTE_SITES) + list(RAW_SITES)
    if T == '':
        # an empty note is "no note", an empty index name is "no name"
        sites = [x for x in sites if x in ('project_value', 'table_prop', 'column_prop', 'default')]
    return sites


def arm_parse(T, case):
    """MODEL, parse direction."""
    viols = []
    sites = sites_for(T)
    if T.strip(' \n') == '' and T != '':
        sites = sites_for(T) + []
    # the same text as a backtick expression (column default and index subject of the neighbour table): raw
    s = schema_with(T, sites, expr=T if ('`' not in T and T != '') else None)
    quotes = ['t'] if '\n' in T else ["'", '"', 't']
    stored = {}
    for q in quotes:
        for pad in ((False, True) if q == 't' else (False,)):
            text, _ = write(s, Style(quote=q, pad=pad))
            c = dict(case, arm='parse', quote=q, text=text)
            try:
                content = extract(_parse(text, s.allow_properties))
            except Exception as e:  # noqa
                viols.append(Viol(f'c13:parse:rejected:{type(e).__name__}', f'text {T!r} written with {q} quotes is rejected: {type(e).__name__}: {str(e)[:200]}', c, size=len(T)))
                continue
            s_exp = copy.deepcopy(s)
            for site in sites:
                v = site_value(content, site)
                if site in NOTE_SITES:
                    prob = None if isinstance(v, str) and normal_form_problem(T, v) is None else (normal_form_problem(T, v) if isinstance(v, str) else f'stored {v!r}')
                    if prob:
                        viols.append(Viol(f'c13:parse:normalise:{site}', f'{site}: text {T!r} ({q}) stored as {v!r}: {prob}', c, size=len(T)))
                elif v != T:
                    viols.append(Viol(f'c13:parse:raw:{site}', f'{site}: text {T!r} ({q}) stored as {v!r}', c, size=len(T)))
                set_site(s_exp, site, v if isinstance(v, str) else T)
                key = (site,)
                if key in stored and stored[key][1] != v:
                    viols.append(Viol(f'c13:parse:styles:{site}', f'{site}: text {T!r} stored as {stored[key][1]!r} with {stored[key][0]} quotes but {v!r} with {q}', c, size=len(T)))
                stored.setdefault(key, (q, v))
            for path, exp, act in model.diff(model.expected(s_exp), content):
                viols.append(Viol(f'c13:parse:neighbour:{model.path_class(path)}', f'text {T!r} ({q}) altered a neighbour: {path} declared {exp!r}, parsed {act!r}', c, size=len(T)))
    # idempotence: feeding the stored value again stores the same value
    for (site,), (q, v) in list(stored.items()):
        if site in NOTE_SITES and isinstance(v, str) and v != '' and v != T:
            s2 = schema_with(v, [site])
            text, _ = write(s2, Style(quote='t' if '\n' in v else "'"))
            try:
                v2 = site_value(extract(_parse(text, s2.allow_properties)), site)
            except Exception as e:  # noqa
                viols.append(Viol(f'c13:parse:idempotence:{site}', f'stored text {v!r} cannot be fed back: {type(e).__name__}', dict(case, arm='parse', text=text), size=len(T)))
                continue
            if v2 != v:
                viols.append(Viol(f'c13:parse:idempotence:{site}', f'{site}: normalising the stored text {v!r} again gives {v2!r}', dict(case, arm='parse', text=text), size=len(T)))
    return viols


# -- render direction ---------------------------------------------------------------------------

GROUPS = {
    'block_notes': ['table_note', 'group_note', 'project_note', 'sticky'],
    'settings_notes': ['column_note', 'index_note', 'enum_item_note'],
    'values': ['project_value', 'table_prop', 'column_prop'],
    'default': ['default'],
    'index_name': ['index_name'],
}


STAGES = {
    # finding -> failure stages (bucket prefixes of c02.check_db) its record lists
    'F-WSLINE': ('roundtrip:', 'fixpoint', 'sql'),
    'F-MLSET': ('roundtrip:.tables[].columns[].note', 'roundtrip:.tables[].indexes[].note', 'roundtrip:.enums[].items[].note', 'fixpoint', 'sql'),
    'F-MLPROP': ('roundtrip:.tables[].props', 'roundtrip:.tables[].columns[].props', 'roundtrip:.project.items', 'fixpoint'),
    'F-MLDEFAULT': ('reparse', 'roundtrip:.tables[].columns[].default', 'roundtrip:.tables[].indexes[].name', 'fixpoint', 'sql'),
    'F-TRIPLE': ('reparse', 'roundtrip:'),
    'F-STRBOOL': ('roundtrip:.tables[].columns[].default', 'fixpoint', 'sql'),
    'F-FALSY': ('roundtrip:.tables[].columns[].default', 'sql'),
}


def blocked(T, group):
    """ids of the OPEN findings that break rendering of T at this site group (a text can sit in several zones at once:
    multi-line AND ending in three quotes), in the order in which their explanations are tried."""
    out = []
    ml = '\n' in T
    if ml and any(l != '' and blank(l) for l in T.split('\n')) and group in ('block_notes', 'settings_notes') and F.is_open('F-WSLINE'):
        out.append('F-WSLINE')
    if ml and group == 'settings_notes' and F.is_open('F-MLSET'):
        out.append('F-MLSET')
    if ml and group == 'values' and F.is_open('F-MLPROP'):
        out.append('F-MLPROP')
    if ml and group in ('default', 'index_name') and F.is_open('F-MLDEFAULT'):
        out.append('F-MLDEFAULT')
    if "'''" in T and F.is_open('F-TRIPLE'):
        # single-line literals always; triple-quoted ones when the run of quotes touches the end of the text
        # (only the first quote of each ''' is escaped, the remaining two merge with the closing quotes)
        if not (ml and group == 'block_notes') or T.endswith("'''"):
            out.append('F-TRIPLE')
    if group == 'default' and T.lower() in ('true', 'false', 'null') and F.is_open('F-STRBOOL'):
        out.append('F-STRBOOL')
    if group == 'default' and T == '' and F.is_open('F-FALSY'):
        out.append('F-FALSY')
    return out


def normal(T):
    """T in note normal form (what a note site stores), by the reference predicate's construction."""
    tl = T.split('\n')
    if all(blank(l) for l in tl):
        return None
    a = 0
    while blank(tl[a]):
        a += 1
    b = len(tl)
    while blank(tl[b - 1]):
        b -= 1
    core = tl[a:b]
    k = min(len(l) - len(l.lstrip(' \t')) for l in core if not blank(l))
    return '\n'.join(l[k:] if not blank(l) else l[k:] for l in core)


def arm_render(T, case, ctx=None):
    viols = []
    for group, sites in GROUPS.items():
        V = T
        if group in ('block_notes', 'settings_notes'):
            V = normal(T)
            if V is None or V == '':
                continue
        elif group == 'index_name' and T == '':
            continue
        fids = blocked(V, group)
        s = schema_with(V, sites)
        for how in ('built', 'parsed'):
            c = dict(case, arm='render', group=group, how=how, value=V)
            try:
                if how == 'built':
                    db = build(s)
                else:
                    text, _ = write(s, Style(quote='t' if '\n' in V else "'"))
                    c['text'] = text
                    db = _parse(text, s.allow_properties)
            except Exception:  # noqa -- construction problems are the parse arm's business
                continue
            vs, _ = c02.check_db(db, c, None, s.allow_properties)
            for v in vs:
                why = next((f for f in fids if any(v.bucket.startswith(p) for p in STAGES[f])), None)
                viols.append(Viol(f'c13:render:{group}:{v.bucket}', f'text {V!r} at {group} ({how}): {v.message}', c,
                                  finding=why, size=len(T)))
            if fids and ctx is not None and not vs:
                ctx.extra[f'zone_clean:{fids[0]}'] = ctx.extra.get(f'zone_clean:{fids[0]}', 0) + 1
    return viols


def arm_sql(T, case):
    viols = []
    V = normal(T)
    expr = T if ('`' not in T and T.strip() != '' and '\n' not in T) else None
    if V is None and expr is None:
        return viols, False
    s = schema_with(V, ['table_note', 'column_note'], expr=expr) if V else schema_with('n', [], expr=expr)
    c = dict(case, arm='sql', value=V, expr=expr)
    try:
        sql = build(s).sql
    except Exception as e:  # noqa
        return [Viol(f'c13:sql:raise:{type(e).__name__}', f'.sql raised {type(e).__name__}: {e}', c, size=len(T))], True
    if V:
        p = sqlparse(sql)
        got = {(x.kind, x.target): x.text for x in p.comment_ons}
        for key in (('TABLE', ('tab',)), ('COLUMN', ('tab', 'c1'))):
            lit = got.get(key)
            if lit is None:
                viols.append(Viol('c13:sql:comment-missing', f'note {V!r}: no readable COMMENT ON {key} (unreadable: {p.unreadable[:2]})', c, size=len(T)))
                continue
            if lit not in neutralised(V):
                viols.append(Viol('c13:sql:comment-text', f'note {V!r}: COMMENT ON literal is {lit!r}', c, size=len(T)))
            if "'" in lit.replace("''", '').replace("\\'", ''):
                viols.append(Viol('c13:sql:comment-quote', f'note {V!r}: raw single quote inside the literal {lit!r}', c, size=len(T)))
        if ('TABLE', ('s1', 'neighbour')) not in got or got[('TABLE', ('s1', 'neighbour'))] != 'after':
            viols.append(Viol('c13:sql:neighbour', f'note {V!r}: the following table\'s COMMENT ON changed or is unreadable', c, size=len(T)))
    if expr is not None:
        if f'DEFAULT ({expr})' not in sql:
            viols.append(Viol('c13:sql:expr-default', f'expression {expr!r} is not passed through verbatim in parentheses as a default', c, size=len(T)))
        if f'(({expr}))' not in sql:
            viols.append(Viol('c13:sql:expr-index', f'expression {expr!r} is not passed through verbatim in parentheses as an index subject', c, size=len(T)))
    return viols, True


def interesting(T):
    return any(ch in T for ch in "'\"\\`\n{}") or '//' in T or '/*' in T


def evaluate(T, ctx: Ctx = None, gen_name='?'):
    case = dict(string=T, gen=gen_name)
    viols = []
    v = arm_parse(T, case)
    viols += v
    if ctx is not None:
        cls = ['arm:parse'] + (['multiline'] if '\n' in T else [])
        ctx.record(thash('parse' + T), interesting(T), cls, dict(string=T, arm='parse') if len(T) < 60 else None)
    v = arm_render(T, case, ctx)
    viols += v
    if ctx is not None:
        ctx.record(thash('render' + T), interesting(T), ['arm:render'], None)
    v, ran = arm_sql(T, case)
    viols += v
    if ctx is not None and ran:
        ctx.record(thash('sql' + T), interesting(T), ['arm:sql'], None)
    return viols


def replay(case):
    T = case['string']
    arm = case.get('arm')
    if arm == 'parse':
        return arm_parse(T, dict(string=T))
    if arm == 'render':
        return arm_render(T, dict(string=T))
    if arm == 'sql':
        return arm_sql(T, dict(string=T))[0]
    return evaluate(T)


def texts():
    alpha = "abc XYZ09_-#{}[]'\"/:;%\\?<>=`@|$éß日.,()*!"
    weighted = st.sampled_from(["'", '"', '\\', '`', "'''", '"""', '//', '/*', '*/', '{', '}', '[', ']', '#', '\n', '\n  ', ' ',
                                'é', '日本', "\\'", '\\"', '\\\\', '\\n', "';", '--', '{0}', '{x}', '%s', ']]', "' ]"])
    piece = st.one_of(st.text(alphabet=alpha, min_size=0, max_size=12), weighted, weighted)
    return st.lists(piece, min_size=1, max_size=8).map(''.join).map(lambda s: s[:200])


PATTERNS = [' a\nb', '  a\n b\n   c', 'a\n  b', '\n\n a\n\n b\n\n', '   x\n  y\n z', ' a\n  b\n c', '\n  a\n  b\n', 'a\n\n\nb',
            '  a\n\n  b', "  '\n '", ' "\n\\', 'x\n y\n  z\n   w', '    deep\nshallow\n    deep', ' a\n b', 'a \n b ', '\n a', 'a\n ',
            "it's\n  'quoted'\n", '  // c\n/* d */', '`a`\n  `b`', ' {\n  }\n }']


def indented_texts():
    line = st.tuples(st.integers(0, 4), st.text(alphabet="ab'\"\\`{}#/ ", min_size=0, max_size=6)).map(lambda t: ' ' * t[0] + t[1])
    return st.lists(line, min_size=2, max_size=6).map('\n'.join)


def shard(ctx: Ctx):
    quick = ctx.tier == 'quick'
    maxlen = 3 if quick else 4
    strings = ['']
    for n in range(1, maxlen + 1):
        strings.extend(''.join(p) for p in itertools.product(CRIT, repeat=n))
    for k, T in enumerate(strings):
        if k % ctx.nshards == ctx.shard:
            ctx.add(evaluate(T, ctx, 'exhaustive'))
    ctx.exhaustive_arms.append(f'all {len(strings)} strings of length <= {maxlen} over the critical alphabet {CRIT!r}')
    for k, T in enumerate(PATTERNS):
        if k % ctx.nshards == ctx.shard:
            ctx.add(evaluate(T, ctx, 'patterns'))
    exprs = gen.EXPRS + gen.EXPR_SPECIAL + ['(getdate())', '(a)', '()', '(price + 1) * (qty + 2)', '((a) + (b))', '(a))', '((a)']
    for k, T in enumerate(exprs):
        if k % ctx.nshards == ctx.shard and '`' not in T:
            ctx.add(evaluate(T, ctx, 'expressions'))
    hyp_run(ctx, 'text', texts(), lambda T: evaluate(T, ctx, 'sampled'), 10 if quick else 400)
    hyp_run(ctx, 'indented', indented_texts(), lambda T: evaluate(T, ctx, 'indented'), 10 if quick else 400)
