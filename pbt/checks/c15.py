"""C15 — arbitrary properties are honoured exactly when enabled.

Arms: (on)  documents with properties parsed with allow_properties=True: MODEL (stored on the right
            owner, exact, ordered, other settings intact), db.allow_properties is True, ROUNDTRIP via .dbml;
      (off) the same documents with the option off must be syntax errors;
      (gate) API-built models carrying properties render no property text while the database flag is off,
            and flipping the flag toggles exactly that, repeatedly;
      (diff) property-free documents: content, .dbml and .sql identical with the option on and off.
"""
from __future__ import annotations

import copy

from hypothesis import strategies as st

from .. import findings as F
from .. import gen, model
from ..build import build
from ..core import Ctx, Viol, hyp_run, thash
from ..extract import extract
from ..surface import Style, write
from . import c01, c02

RULE = ('schemas with 0-3 properties on tables and columns (word keys, values over the free-text alphabet) mixed '
        'with ordinary settings, notes and index blocks, x allow_properties {on, off} x flag flips; property-free '
        'documents for the on/off differential. non-trivial: properties next to >= 1 other setting, or a '
        'property-free document with >= 3 settings; distinct by sha1 of (text, arm)')
ASSUMPTIONS = ['property keys are word identifiers that do not start with a settings keyword while F-KWPREFIX is open',
               'multi-line property values are exercised only in the zone arm while F-MLPROP is open']
FLOORS = {'quick': {'arm:on': 100, 'arm:off': 100, 'arm:gate': 50, 'arm:diff': 50, 'table_props': 30, 'column_props': 30},
          'thorough': {'arm:on': 2000, 'arm:off': 2000, 'arm:gate': 1000, 'arm:diff': 1000, 'table_props': 500, 'column_props': 500}}


def has_props(s):
    return any(t.props or any(c.props for c in t.columns) for t in s.tables)


def strip_props(s):
    s2 = copy.deepcopy(s)
    for t in s2.tables:
        t.props = []
        for c in t.columns:
            c.props = []
    s2.allow_properties = False
    return s2


def _parse(text, on):
    from pydbml import PyDBML
    return PyDBML.parse(text, allow_properties=True) if on else PyDBML.parse(text)


def arm_on(s, style, case):
    """MODEL + flag + ROUNDTRIP"""
    text, lines = write(s, style)
    case = dict(case, text=text, arm='on')
    viols, _ = c01.evaluate_text(s, text, lines, 'c15-on', None)
    out = [Viol('c15:on:' + v.bucket, v.message, case, finding=v.finding, size=len(text)) for v in viols]
    if out:
        return out, text
    db = _parse(text, True)
    if db.allow_properties is not True:
        out.append(Viol('c15:on:flag', f'database parsed with allow_properties=True has allow_properties={db.allow_properties!r}', case, size=len(text)))
    out += other_routes(text, extract(db), case)
    vs, d1 = c02.check_db(db, case, s, True)
    out += [Viol('c15:on:' + v.bucket, v.message, case, finding=v.finding, size=len(text)) for v in vs]
    if d1 is not None and has_props(s):
        for t in s.tables:
            for k, _ in t.props:
                if f'{k}:' not in d1:
                    out.append(Viol('c15:on:not-rendered', f'property {k!r} of table {t.name!r} is not rendered with the option on', case, size=len(text)))
    return out, text


def other_routes(text, want, case):
    """The option is honoured on every source route of the constructor (string, Path, open text file)."""
    import os
    import tempfile
    from pathlib import Path
    from pydbml import PyDBML
    out = []
    fd, path = tempfile.mkstemp(prefix='pbt-c15-', suffix='.dbml')
    try:
        with os.fdopen(fd, 'w', encoding='utf8', newline='') as fh:
            fh.write(text)
        for label, thunk in (('PyDBML(str)', lambda: PyDBML(text, allow_properties=True)),
                             ('PyDBML(Path)', lambda: PyDBML(Path(path), allow_properties=True)),
                             ('PyDBML(file)', lambda: _with_file(path, lambda fh: PyDBML(fh, allow_properties=True)))):
            try:
                db = thunk()
            except Exception as e:  # noqa
                out.append(Viol(f'c15:on:route:{label}:raise', f'{label} with allow_properties=True raised {type(e).__name__}: {str(e)[:120]}', case, size=len(text)))
                continue
            if db.allow_properties is not True:
                out.append(Viol(f'c15:on:route:{label}:flag', f'{label} with allow_properties=True gives allow_properties={db.allow_properties!r}', case, size=len(text)))
            elif extract(db) != want:
                out.append(Viol(f'c15:on:route:{label}:content', f'{label} with allow_properties=True parses the properties differently', case, size=len(text)))
    finally:
        os.unlink(path)
    return out


def _with_file(path, fn):
    with open(path, encoding='utf8', newline='') as fh:
        return fn(fh)


def arm_off(s, style, case):
    import pyparsing as pp
    text, _ = write(s, style)
    case = dict(case, text=text, arm='off')
    try:
        _parse(text, False)
    except pp.ParseBaseException:
        return [], text
    except Exception as e:  # noqa
        return [Viol(f'c15:off:{type(e).__name__}', f'property syntax with the option off raised {type(e).__name__}: {e}, expected a syntax error', case, size=len(text))], text
    return [Viol('c15:off:accepted', 'property syntax was accepted although allow_properties is off', case, size=len(text))], text


def arm_gate(s, case, flips):
    """API-built objects carrying properties: rendering follows the database flag."""
    case = dict(case, arm='gate', flips=flips)
    out = []
    db = build(s)                    # s.allow_properties is True -> flag on
    bare = build(strip_props(s))     # the property-free twin, flag off
    on_text = db.dbml
    off_expected = bare.dbml
    state = True
    for f in flips:
        state = bool(f)
        db.allow_properties = state
        got = db.dbml
        if state and got != on_text:
            out.append(Viol('c15:gate:on-changed', 'switching the flag back on does not restore the rendering with properties', case, size=len(got)))
        if not state and got != off_expected:
            out.append(Viol('c15:gate:off-renders', 'with the flag off the rendering differs from that of the property-free model:\n'
                            + c02._first_diff(off_expected, got), case, size=len(got)))
        for t, tb in zip(db.tables, bare.tables):
            if not state and t.dbml != tb.dbml:
                out.append(Viol('c15:gate:off-renders-element', f'table {t.name!r}.dbml shows properties with the flag off', case, size=len(got)))
    return out


def arm_inplace(s, case):
    """Properties put on API-built objects in place (obj.properties[k] = v, as the documentation does) are stored on
    that table or column and on nothing else."""
    from pydbml.classes import Column, Table
    case = dict(case, arm='inplace')
    out = []
    want_db = build(s)
    db = build(strip_props(s), allow_properties=True)       # every object constructed without a properties argument
    for a, t in zip(s.tables, db.tables):
        for obj in [t] + list(t.columns):
            if not isinstance(obj.properties, dict):
                return [Viol('c15:inplace:no-dict', f'{type(obj).__name__} built without a properties argument has .properties == {obj.properties!r}, '
                             'not an (empty) dict to store properties in', case)]
        for k, v in a.props:
            t.properties[k] = v
        for ac, c in zip(a.columns, t.columns):
            for k, v in ac.props:
                c.properties[k] = v
    got, want = extract(db), extract(want_db)
    if got != want:
        d = model.diff(want, got)
        out.append(Viol('c15:inplace:content:' + model.path_class(d[0][0]), 'after obj.properties[k] = v on the objects that should carry properties, '
                        f'the model differs from one built with those properties: {d[0]}', case))
    elif db.dbml != want_db.dbml:
        out.append(Viol('c15:inplace:dbml', 'in-place properties render differently from constructor-given ones:\n' + c02._first_diff(want_db.dbml, db.dbml), case))
    fresh_t, fresh_c = Table('pbt_fresh'), Column('pbt_fresh', 'int')
    if fresh_t.properties or fresh_c.properties:
        out.append(Viol('c15:inplace:leak', f'a new Table / Column starts with properties it was never given: {fresh_t.properties} {fresh_c.properties}', case))
    return out


def arm_diff(s, style, case):
    """Enabling the option changes nothing for a document without properties."""
    text, _ = write(s, style)
    case = dict(case, text=text, arm='diff')
    out = []
    res = []
    for on in (False, True):
        try:
            db = _parse(text, on)
            res.append(('db', extract(db), db.dbml, db.sql))
        except Exception as e:  # noqa
            res.append(('raise', type(e).__name__))
    if res[0] != res[1]:
        what = 'outcome'
        if res[0][0] == res[1][0] == 'db':
            what = ['content', '.dbml', '.sql'][[i for i in (1, 2, 3) if res[0][i] != res[1][i]][0] - 1]
            if what == 'content':
                d = model.diff(res[0][1], res[1][1])
                what += ':' + model.path_class(d[0][0])
        out.append(Viol(f'c15:diff:{what}', f'a property-free document is parsed/rendered differently with allow_properties on ({what}): '
                                            f'{str(res[0])[:150]} vs {str(res[1])[:150]}', case, size=len(text)))
    return out, text


def evaluate(c, ctx: Ctx, gen_name='strict'):
    s, style, flips = c
    viols = []
    base = dict(schema=model.to_json(s), gen=gen_name)
    if has_props(s):
        v, text = arm_on(s, style, base)
        viols += v
        ctx.record(thash('on' + text), _nt_props(s), ['arm:on'] + _cls(s), dict(arm='on', text=text) if len(text) < 500 else None)
        v, text = arm_off(s, style, base)
        viols += v
        ctx.record(thash('off' + text), True, ['arm:off'])
        viols += arm_gate(s, base, flips)
        viols += arm_inplace(s, base)
        ctx.record(thash('inplace' + text), sum(1 for t in s.tables if not t.props) >= 1 and len(s.tables) >= 2, ['arm:inplace'])
        ctx.record(thash('gate' + text + str(flips)), True, ['arm:gate'])
    s0 = strip_props(s)
    v, text = arm_diff(s0, style, dict(schema=model.to_json(s0), gen=gen_name))
    viols += v
    nset = sum(sum([c.pk, c.unique, c.not_null, c.autoinc, c.default is not None, c.note is not None, bool(c.refs)])
               for t in s0.tables for c in t.columns)
    ctx.record(thash('diff' + text), nset >= 3, ['arm:diff'])
    return viols


def _cls(s):
    out = []
    if any(t.props for t in s.tables):
        out.append('table_props')
    if any(c.props for t in s.tables for c in t.columns):
        out.append('column_props')
    return out


def _nt_props(s):
    for t in s.tables:
        if t.props and (t.note or t.indexes):
            return True
        for c in t.columns:
            if c.props and (c.pk or c.unique or c.not_null or c.autoinc or c.default is not None or c.note or c.refs):
                return True
    return False


def replay(case):
    s = model.from_json(case['schema'])
    arm = case.get('arm')
    if arm == 'inplace':
        return arm_inplace(s, {k: v for k, v in case.items() if k != 'arm'})
    if arm == 'gate':
        return arm_gate(s, {k: v for k, v in case.items() if k not in ('arm', 'flips')}, case['flips'])
    from pydbml import PyDBML
    text = case['text']
    if arm == 'off':
        import pyparsing as pp
        try:
            _parse(text, False)
        except pp.ParseBaseException:
            return []
        except Exception as e:  # noqa
            return [Viol(f'c15:off:{type(e).__name__}', f'raised {type(e).__name__}', case)]
        return [Viol('c15:off:accepted', 'property syntax was accepted although allow_properties is off', case)]
    if arm == 'diff':
        res = []
        for on in (False, True):
            try:
                db = _parse(text, on)
                res.append(('db', extract(db), db.dbml, db.sql))
            except Exception as e:  # noqa
                res.append(('raise', type(e).__name__))
        return [] if res[0] == res[1] else [Viol('c15:diff:replay', 'differs with the option on', case)]
    viols, _ = c01.evaluate_text(s, text, None, 'c15-on', None)
    out = [Viol('c15:on:' + v.bucket, v.message, case, finding=v.finding) for v in viols]
    if not out:
        db = _parse(text, True)
        vs, _ = c02.check_db(db, case, s, True)
        out += [Viol('c15:on:' + v.bucket, v.message, case, finding=v.finding) for v in vs]
    return out


def shard(ctx: Ctx):
    quick = ctx.tier == 'quick'
    sizes = gen.Sizes(tables=3, columns=4, indexes=2, enums=1, items=2, refs=3, groups=1, stickies=1, props=3)
    feats = frozenset((c02.strict_features() & c01.strict_features()) | {'props'})
    wfeat = frozenset({'prop_newline'}) if not F.is_open('F-PROPNL') else frozenset()

    @st.composite
    def cases(draw, feats=feats, wfeat=wfeat):
        s = draw(gen.schemas(feats, sizes, min_tables=1))
        return s, draw(gen.styles(features=wfeat)), draw(st.lists(st.booleans(), min_size=1, max_size=5))

    hyp_run(ctx, 'strict', cases(), lambda c: evaluate(c, ctx), 100 if quick else 1000)
    zones = [('prop_newline', 'F-PROPNL'), ('kw_prefix_name', 'F-KWPREFIX'), ('multiline_value', 'F-MLPROP')]
    for feat, fid in zones:
        if not F.is_open(fid):
            continue
        zf = frozenset(feats | {feat})
        zw = frozenset(wfeat | ({'prop_newline'} if feat == 'prop_newline' else set()))

        @st.composite
        def zcases(draw, zf=zf, zw=zw):
            s = draw(gen.schemas(zf, sizes, min_tables=1))
            return s, draw(gen.styles(features=zw)), [False, True]

        hyp_run(ctx, f'zone:{feat}', zcases(), lambda c, feat=feat: evaluate(c, ctx, f'zone:{feat}'), 10 if quick else 60)
