"""C02 — DBML round trip: parse(render(db)) equals db, and rendering is a fixpoint.

Databases come from both constructions: PyDBML(write(schema, style)) and build(schema).
ROUNDTRIP  diff(extract(db), extract(PyDBML(db.dbml))) is empty;
FIXPOINT   PyDBML(db.dbml).dbml == db.dbml byte-wise, over three cycles (exposes growing drift);
SQL        db.sql == PyDBML(db.dbml).sql (differential: catches values the DBML fixpoint hides).
Strict campaign: the trigger of every OPEN finding is absent by construction; one zone arm per open
finding forces its trigger in and accepts only failures that match the finding's record.
"""
from __future__ import annotations

from hypothesis import strategies as st

from .. import findings as F
from .. import gen, model
from ..build import build
from ..core import Ctx, Viol, hyp_run, thash
from ..extract import extract
from ..lib import exc_key
from ..model import ASchema
from ..surface import Style, is_word, needs_quotes, write, RESERVED
from .c01 import classify

RULE = ('schemas over the DBML-expressible domain, each as a parsed database (random style) and as an '
        'API-built database; oracle: content round trip + byte-wise fixpoint over 3 cycles + SQL equality. '
        'non-trivial: >= 1 identifier needing quotes, or >= 1 reference, or >= 1 multi-line text; '
        'distinct by sha1 of (construction, first rendering)')
ASSUMPTIONS = ['note texts of API-built models are in normal form (otherwise parse(render) legitimately differs)',
               'triggers of open findings are excluded from the strict campaign by construction and exercised in zone arms']
FLOORS = {'quick': {'quoted_ident': 40, 'has_ref': 40, 'composite_ref': 5, 'm2m': 5, 'has_alias': 10,
                    'has_schema': 20, 'reserved_ident': 20},
          'thorough': {'quoted_ident': 400, 'has_ref': 400, 'composite_ref': 50, 'm2m': 50, 'has_alias': 100,
                       'has_schema': 200, 'reserved_ident': 200}}


# -- triggers of the open findings ------------------------------------------------------------

def _texts_single(s: ASchema):
    """every text position that is rendered inside a single-line or triple literal"""
    for t in s.tables:
        yield t.note
        for c in t.columns:
            yield c.note
            if c.default and c.default[0] == 'str':
                yield c.default[1]
            for _, v in c.props:
                yield v
        for ix in t.indexes:
            yield ix.note
            yield ix.name
        for _, v in t.props:
            yield v
    for e in s.enums:
        for i in e.items:
            yield i.note
    for g in s.groups:
        yield g.note
    for n in s.stickies:
        yield n.text
    if s.project:
        yield s.project.note
        for _, v in s.project.items:
            yield v


def trig_falsy(s):
    return any(c.default in (('int', 0), ('float', 0.0), ('bool', False), ('str', '')) for t in s.tables for c in t.columns)


def trig_strbool(s):
    return any(c.default and c.default[0] == 'str' and c.default[1].lower() in ('true', 'false', 'null')
               for t in s.tables for c in t.columns)


def trig_reforder(s):
    """db.refs is not in the order in which the rendered document declares the references: inline ones inside their
    tables (table by table, column by column), the others after all tables."""
    refs = s.all_refs()
    flags = [bool(r.inline and r.kind != '<>') for r in refs]
    if flags != sorted(flags, reverse=True):
        return True
    tpos = {t.key: i for i, t in enumerate(s.tables)}
    where = []
    for r, f in zip(refs, flags):
        if f:
            t = next((x for x in s.tables if x.key == r.t1), None)
            cpos = next((j for j, c in enumerate(t.columns) if c.name == r.c1[0]), -1) if t is not None else -1
            where.append((tpos.get(r.t1, -1), cpos))
    return where != sorted(where)


def trig_mlset(s):
    return any((c.note and '\n' in c.note) for t in s.tables for c in t.columns) or \
        any((ix.note and '\n' in ix.note) for t in s.tables for ix in t.indexes) or \
        any((i.note and '\n' in i.note) for e in s.enums for i in e.items)


def trig_mlprop(s):
    vals = [v for t in s.tables for _, v in t.props] + [v for t in s.tables for c in t.columns for _, v in c.props]
    vals += [v for _, v in (s.project.items if s.project else [])]
    return any('\n' in v for v in vals)


def trig_mldefault(s):
    return any(c.default and c.default[0] in ('str', 'expr') and '\n' in c.default[1] for t in s.tables for c in t.columns) or \
        any(ix.name and '\n' in ix.name for t in s.tables for ix in t.indexes)


def trig_typequote(s):
    import re
    for t in s.tables:
        for c in t.columns:
            if c.type[0] == 'plain':
                base = re.match(r'^(.*?)(\(.*\)|\[\])?$', c.type[1], re.S).group(1)
                if not all(is_word(p) for p in base.split('.')):
                    return True
    return False


def trig_floatexp(s):
    return any(c.default and c.default[0] == 'float' and 'e' in repr(float(c.default[1])) for t in s.tables for c in t.columns)


def trig_triple(s):
    return any(x and "'''" in x for x in _texts_single(s))


def trig_dot(s):
    names = [n for t in s.tables for n in (t.schema, t.name)] + [n for e in s.enums for n in (e.schema, e.name)]
    return any('.' in n for n in names)


def trig_refsplit(s):
    return any(',' in c or c.strip('() ') != c for r in s.all_refs() for c in list(r.c1) + list(r.c2))


def trig_wsline(s):
    return any(x and any(l != '' and l.strip(' ') == '' for l in x.split('\n')) for x in _texts_single(s))


def trig_kwprefix(s):
    keys = [k for t in s.tables for k, _ in t.props] + [k for t in s.tables for c in t.columns for k, _ in c.props]
    keys += [k for k, _ in (s.project.items if s.project else [])]
    kws = ('note', 'indexes', 'pk', 'unique', 'null', 'not null', 'increment', 'primary key', 'default', 'ref')
    return any(k.lower().startswith(kws) for k in keys)


# feature -> (finding, trigger, accepted failure stages)
ZONES = {
    'falsy_default': ('F-FALSY', trig_falsy, ('roundtrip:.tables[].columns[].default', 'sql')),
    'str_bool_default': ('F-STRBOOL', trig_strbool, ('roundtrip:.tables[].columns[].default', 'fixpoint', 'sql')),
    'mixed_layout': ('F-REFORDER', trig_reforder, ('roundtrip:.refs', 'sql')),
    'inline_m2m': ('F-REFORDER', trig_reforder, ('roundtrip:.refs', 'sql')),
    'multiline_settings_note': ('F-MLSET', trig_mlset, ('roundtrip:.tables[].columns[].note', 'roundtrip:.tables[].indexes[].note',
                                                        'roundtrip:.enums[].items[].note', 'fixpoint', 'sql')),
    'multiline_value': ('F-MLPROP', trig_mlprop, ('roundtrip:.tables[].props', 'roundtrip:.tables[].columns[].props',
                                                  'roundtrip:.project.items', 'fixpoint')),
    'multiline_default': ('F-MLDEFAULT', trig_mldefault, ('reparse', 'roundtrip:.tables[].columns[].default', 'roundtrip:.tables[].indexes[].name', 'fixpoint', 'sql')),
    'quoted_type': ('F-TYPEQUOTE', trig_typequote, ('reparse', 'roundtrip:.tables[].columns[]')),
    'float_exp': ('F-FLOATEXP', trig_floatexp, ('reparse',)),
    'triple_quote_text': ('F-TRIPLE', trig_triple, ('reparse', 'roundtrip:')),
    'dot_in_name': ('F-DOT', trig_dot, ('reparse', 'roundtrip:.tables[].columns[].type')),
    'ref_col_trim': ('F-REFSPLIT', trig_refsplit, ('reparse', 'roundtrip:.refs', 'sql')),
    'kw_prefix_name': ('F-KWPREFIX', trig_kwprefix, ('reparse',)),
    'ws_only_line': ('F-WSLINE', trig_wsline, ('roundtrip:', 'sql')),
    # no generator feature: comments only enter through edit scripts (C14 owns comments)
    '(column comment)': ('F-COLCOMMENT', lambda s: any(c.comment for t in s.tables for c in t.columns),
                         ('roundtrip:.tables[].columns[].comment', 'fixpoint')),
}
# features that only matter to the parser-side writer / are orthogonal to rendering
PARSE_ONLY = {'prop_newline'}


def strict_features():
    feats = set(gen.ALL_FEATURES) - PARSE_ONLY
    for feat, (fid, _, _) in ZONES.items():
        if F.is_open(fid):
            feats.discard(feat)
    return frozenset(feats)


def expressible(s: ASchema) -> bool:
    """Rules of the DBML-expressible domain that an edit script can leave."""
    # an inline reference cannot carry a name or actions in DBML
    if any(r.inline and r.kind != '<>' and (r.name or r.on_update or r.on_delete or r.comment) for r in s.all_refs()):
        return False
    # a plain type must not be spelled like a declared enum (it would be that enum after parsing)
    enum_spellings = {e.name for e in s.enums if e.schema == 'public'} | {f'{e.schema}.{e.name}' for e in s.enums}
    if any(c.type[0] == 'plain' and c.type[1] in enum_spellings for t in s.tables for c in t.columns):
        return False
    return True


def triggered(s: ASchema) -> set:
    return {fid for feat, (fid, trig, _) in ZONES.items() if F.is_open(fid) and trig(s)}


def explain(stage: str, s: ASchema):
    """Only a case that contains an open finding's trigger can be attributed to it, and only for a
    failure stage the finding's record lists."""
    if s is None:
        return None
    for feat, (fid, trig, stages) in ZONES.items():
        if F.is_open(fid) and trig(s) and any(stage.startswith(p) for p in stages):
            return fid
    return None


# ---------------------------------------------------------------------------------------------

def _parse(text, props):
    from pydbml import PyDBML
    return PyDBML.parse(text, allow_properties=True) if props else PyDBML.parse(text)


def _line_kind(text: str, e) -> str:
    try:
        line = text.split('\n')[max(0, e.lineno - 1)].strip()
        return (line.split() or ['?'])[0][:12]
    except Exception:  # noqa
        return '?'


def check_db(db, case, s=None, props=False, cycles=2):
    """ROUNDTRIP + FIXPOINT + SQL on one database. Returns (viols, first rendering)."""
    viols = []

    def V(stage, msg, size):
        viols.append(Viol(stage, msg, case, finding=explain(stage, s), size=size))

    try:
        before = extract(db)
        d1 = db.dbml
        sql1 = db.sql
    except Exception as e:  # noqa
        V(f'render:{exc_key(e)}', f'rendering raised {type(e).__name__}: {e}', 0)
        return viols, None
    size = len(d1)
    try:
        db2 = _parse(d1, props)
    except Exception as e:  # noqa
        V(f'reparse:{type(e).__name__}:{_line_kind(d1, e)}',
          f'rendered DBML does not parse back: {type(e).__name__}: {e}\n--- rendered ---\n{d1}', size)
        return viols, d1
    after = extract(db2)
    diffs = model.diff(before, after)
    for path, exp, act in diffs:
        V(f'roundtrip:{model.path_class(path)}', f'{path}: before {exp!r}, after render+parse {act!r}', size)
    if diffs:
        return viols, d1
    try:
        sql2 = db2.sql
        if sql1 != sql2:
            V('sql', f'.sql differs after the DBML round trip:\n{_first_diff(sql1, sql2)}', size)
    except Exception as e:  # noqa
        V(f'render:{exc_key(e)}', f'rendering SQL of the re-parsed database raised {type(e).__name__}: {e}', size)
    prev, cur = d1, db2
    for k in range(cycles):
        try:
            dk = cur.dbml
        except Exception as e:  # noqa
            V(f'render:{exc_key(e)}', f'rendering cycle {k + 2} raised {type(e).__name__}: {e}', size)
            break
        if dk != prev:
            V('fixpoint', f'rendering is not a fixpoint (cycle {k + 2}):\n{_first_diff(prev, dk)}', size)
            break
        if k < cycles - 1:
            try:
                cur = _parse(dk, props)
            except Exception as e:  # noqa
                V(f'reparse:{type(e).__name__}', f'cycle {k + 2} does not parse: {e}', size)
                break
    return viols, d1


def _first_diff(a: str, b: str) -> str:
    la, lb = a.split('\n'), b.split('\n')
    for i, (x, y) in enumerate(zip(la, lb)):
        if x != y:
            return f'line {i + 1}:\n  - {x!r}\n  + {y!r}'
    return f'length {len(la)} vs {len(lb)} lines'


def nontrivial(s: ASchema) -> bool:
    names = []
    for t in s.tables:
        names += [t.schema, t.name] + [c.name for c in t.columns]
    for e in s.enums:
        names += [e.schema, e.name] + [i.name for i in e.items]
    if any(needs_quotes(n) for n in names):
        return True
    if s.all_refs():
        return True
    return any(x and '\n' in x for x in _texts_single(s))


def evaluate(s: ASchema, how: str, style=None, ctx: Ctx = None, gen_name='strict', script=()):
    """how = 'parsed' | 'built'"""
    viols = []
    text = None
    case = dict(schema=model.to_json(s), how=how, gen=gen_name)
    try:
        if how == 'parsed':
            text, _ = write(s, style or Style())
            case['text'] = text
            db = _parse(text, s.allow_properties)
        else:
            db = build(s)
    except Exception as e:  # noqa
        # constructing the database is C01's business (parsed) or a harness matter (built)
        if how == 'built':
            raise
        if ctx is not None:
            ctx.extra['source_rejected'] = ctx.extra.get('source_rejected', 0) + 1
        return []
    vs, d1 = check_db(db, case, s, s.allow_properties)
    viols += vs
    if script and not vs:
        # "every database ... built through the public classes": also the one reached by editing this one in place
        from . import sqlcommon as C
        try:
            s2 = C.edited(s, db, script)
        except Exception as e:  # noqa
            s2 = None
            viols.append(Viol(f'edit-raised:{type(e).__name__}', f'in-place edit raised {type(e).__name__}: {e}', dict(case, script=[list(x) for x in script])))
        if s2 is not None and not expressible(s2):
            if ctx is not None:
                ctx.extra['edited_outside_domain'] = ctx.extra.get('edited_outside_domain', 0) + 1
            s2 = None
        if s2 is not None and (triggered(s2) - triggered(s)):
            # the edit moved the model into the zone of an open finding (e.g. a falsy default): not the strict domain
            if ctx is not None:
                ctx.extra['edited_into_zone'] = ctx.extra.get('edited_into_zone', 0) + 1
            s2 = None
        if s2 is not None:
            case2 = dict(case, script=[list(x) for x in script], phase='edited')
            vs2, _ = check_db(db, case2, s2, s.allow_properties)
            viols += [Viol(v.bucket + ':after-edit', 'after in-place edits: ' + v.message, case2, finding=v.finding, size=v.size) for v in vs2]
            if ctx is not None:
                ctx.record(thash('edited' + how + repr(model.to_json(s2))), nontrivial(s2), ['phase:edited', f'how:{how}'])
    if ctx is not None:
        nt = nontrivial(s)
        sample = None
        if nt and d1 is not None and len(ctx.samples) < ctx.MAX_SAMPLES and len(d1) < 700:
            sample = dict(construction=how, dbml=d1)
        cls = classify(s, None) + [f'how:{how}', f'gen:{gen_name}']
        if s.all_refs():
            cls.append('has_ref')
        ctx.record(thash(how + (d1 or '')), nt, cls, sample)
    return viols


def replay(case):
    s = model.from_json(case['schema']) if case.get('schema') else None
    if case.get('how') == 'built':
        db = build(s)
    else:
        db = _parse(case['text'], bool(s.allow_properties) if s else bool(case.get('allow_properties')))
    props = bool(s.allow_properties) if s else bool(case.get('allow_properties'))
    if case.get('phase') == 'edited':
        from . import sqlcommon as C
        db.dbml
        s = C.edited(s, db, [tuple(x) for x in case['script']])
    vs, _ = check_db(db, case, s, props)
    return vs


def shard(ctx: Ctx):
    quick = ctx.tier == 'quick'
    feats = strict_features()
    sizes = gen.QUICK if quick else gen.THOROUGH
    n = 100 if quick else 900

    from . import sqlcommon as C

    @st.composite
    def cases(draw, feats=feats):
        return draw(gen.schemas(feats, sizes)), draw(gen.styles()), draw(C.edit_scripts(3))

    def run(c, gen_name='strict'):
        s, stl = c[0], c[1]
        script = c[2] if len(c) > 2 and gen_name == 'strict' else ()
        return evaluate(s, 'parsed', stl, ctx, gen_name, script) + evaluate(s, 'built', None, ctx, gen_name, script)

    hyp_run(ctx, 'strict', cases(), run, n)
    for feat, (fid, trig, stages) in ZONES.items():
        if not F.is_open(fid) or feat not in gen.ALL_FEATURES:
            continue
        zf = frozenset(feats | {feat} | ({'props'} if feat in ('multiline_value', 'kw_prefix_name') else set()))
        ctx.excluded[feat] += 0

        @st.composite
        def zcases(draw, zf=zf):
            return draw(gen.schemas(zf, sizes, min_tables=1)), draw(gen.styles())

        hyp_run(ctx, f'zone:{feat}', zcases(), lambda c, feat=feat: run(c, f'zone:{feat}'), 4 if quick else 30)
