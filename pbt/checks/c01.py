"""C01 — parsing is faithful: the Database holds exactly what the document declares.

Oracle MODEL: diff(expected(schema), extract(PyDBML(write(schema, style)))) must be empty, where
`expected` is the abstract schema itself under the declared-order rule and `write` is the independent
surface writer.  METAMORPHIC: every style of one schema gives the same extract.
Layers: (i) exhaustive per-element feature products packed many-per-document, each written in k
sampled styles; (ii) Hypothesis-sampled whole documents, each in the canonical and two random styles;
(iii) zone arms for open destructive findings (trigger forced in, failure must match the record).
"""
from __future__ import annotations

import itertools
import random

from hypothesis import strategies as st

from .. import findings as F
from .. import gen, model
from ..core import Ctx, Viol, hyp_run, jhash, thash
from ..extract import extract
from ..lib import allowed_parse_exceptions, exc_key
from ..model import (AColumn, AEnum, AEnumItem, AGroup, AIndex, AProject, ARef, ASchema, ASticky, ATable)
from ..surface import Style, needs_quotes, write, RESERVED

RULE = ('ASchema x Style: exhaustive per-element products (columns, indexes, refs, table headers, enums, '
        'groups, project, sticky notes) packed per document x k sampled styles, plus Hypothesis-sampled '
        'whole documents in canonical + 2 random styles.  non-trivial: >= 2 element kinds, or an element '
        'with >= 2 non-default settings; distinct by sha1 of the document text')
ASSUMPTIONS = [
    'only spellings the library documents/accepts are written (sound-first); inadmissible ones are listed in DESIGN.md section 6',
    'text content excludes tab (pyparsing expands tabs) and names exclude backslash (pyparsing converts \\n \\t \\0 in quoted names): outside the printable / DBML-expressible domain',
]
FLOORS = {'quick': {'has_schema': 20, 'has_alias': 10, 'same_name_two_schemas': 30, 'composite_ref': 5, 'm2m': 5, 'enum_col': 20,
                    'multiline_note': 20, 'quoted_ident': 50, 'reserved_ident': 20, 'inline_ref': 20,
                    'multiline_settings': 20},
          'thorough': {'has_schema': 200, 'has_alias': 100, 'composite_ref': 50, 'm2m': 50, 'enum_col': 200,
                       'multiline_note': 200, 'quoted_ident': 500, 'reserved_ident': 200, 'inline_ref': 200,
                       'multiline_settings': 200}}

DESTRUCTIVE = {
    # feature -> finding id (zone arm runs while the finding is open)
    'dot_in_name': 'F-DOT',
    'ref_col_trim': 'F-REFSPLIT',
    'kw_prefix_name': 'F-KWPREFIX',
    'prop_newline': 'F-PROPNL',
}


def strict_features():
    """Everything the parser must handle, minus the triggers of open destructive findings."""
    feats = set(gen.ALL_FEATURES) - {'float_exp'}
    for feat, fid in DESTRUCTIVE.items():
        if F.is_open(fid):
            feats.discard(feat)
    return frozenset(feats)


# ---------------------------------------------------------------------------------------------

def classify(s: ASchema, lines) -> list:
    cls = []
    names = []
    for t in s.tables:
        names += [t.schema, t.name] + [c.name for c in t.columns] + ([t.alias] if t.alias else [])
    for e in s.enums:
        names += [e.schema, e.name] + [i.name for i in e.items]
    if any(t.schema != 'public' for t in s.tables):
        cls.append('has_schema')
    if any(t.alias for t in s.tables):
        cls.append('has_alias')
    tn = [t.name for t in s.tables]
    if len(set(tn)) < len(tn):
        cls.append('same_name_two_schemas')
    refs = s.all_refs()
    if any(len(r.c1) > 1 for r in refs):
        cls.append('composite_ref')
    if any(r.kind == '<>' for r in refs):
        cls.append('m2m')
    if any(r.inline for r in refs):
        cls.append('inline_ref')
    if any(c.type[0] == 'enum' for t in s.tables for c in t.columns):
        cls.append('enum_col')
    if any(c.type[0] == 'enum' and c.type[1] != 'public' for t in s.tables for c in t.columns):
        cls.append('enum_col_nonpublic')
    notes = [t.note for t in s.tables] + [c.note for t in s.tables for c in t.columns]
    if any(n and '\n' in n for n in notes):
        cls.append('multiline_note')
    if any(needs_quotes(n) and n.lower() not in RESERVED for n in names):
        cls.append('quoted_ident')
    if any(n.lower() in RESERVED for n in names):
        cls.append('reserved_ident')
    if lines is not None and any(l.kind == 'settings_cont' for l in lines):
        cls.append('multiline_settings')
    if any(t.props or any(c.props for c in t.columns) for t in s.tables):
        cls.append('props')
    return cls


def nontrivial(s: ASchema) -> bool:
    kinds = sum(bool(x) for x in (s.tables, s.enums, s.all_refs(), s.groups, s.stickies, s.project))
    if kinds >= 2:
        return True
    for t in s.tables:
        for c in t.columns:
            n = sum([c.pk, c.unique, c.not_null, c.autoinc, c.default is not None, c.note is not None,
                     bool(c.refs), bool(c.props)])
            if n >= 2:
                return True
        for ix in t.indexes:
            if sum([ix.unique, ix.pk, ix.type is not None, ix.name is not None, ix.note is not None]) >= 2:
                return True
    return False


def triggers(s: ASchema, text: str) -> set:
    """Which open-finding triggers a case contains."""
    out = set()
    dotted = []
    for t in s.tables:
        dotted += [t.schema, t.name]
    for e in s.enums:
        dotted += [e.schema, e.name]
    if any('.' in n for n in dotted):
        out.add('F-DOT')
    for r in s.all_refs():
        for c in list(r.c1) + list(r.c2):
            if ',' in c or c.strip('() ') != c:
                out.add('F-REFSPLIT')
    kw = ('note', 'indexes')
    cw = ('pk', 'unique', 'null', 'not null', 'increment', 'primary key', 'note:', 'default:', 'ref:')
    bare_risky = [g_item[1] for g in s.groups for g_item in g.items]
    bare_risky += [a for t in s.tables for a in [t.alias] if a]
    bare_risky += [k for k, _ in (s.project.items if s.project else [])]
    bare_risky += [k for t in s.tables for k, _ in t.props]
    if any(n.lower().startswith(kw) and n.lower() not in RESERVED for n in bare_risky if n):
        out.add('F-KWPREFIX')
    if any(k.lower().startswith(cw) for t in s.tables for c in t.columns for k, _ in c.props):
        out.add('F-KWPREFIX')
    return out


def _dotted_group_item(s: ASchema) -> bool:
    return any('.' in sch or '.' in nm for g in s.groups for sch, nm in g.items)


def explain(kind: str, detail, s: ASchema, text: str, lines=None):
    """Attribute a failure to an OPEN known finding, narrowly; None = unexplained."""
    trig = triggers(s, text)
    if kind == 'parse':
        e = detail
        name = type(e).__name__
        if name == 'TableNotFoundError' and 'F-DOT' in trig and F.is_open('F-DOT'):
            return 'F-DOT'
        # a group item `"s"."a.b"` is split on every dot and its first part looked up as a bare name: if a table or alias of
        # that name exists the item is bound to it, and a second such item makes it a duplicate
        if name == 'ValidationError' and 'is already in group' in str(e) and F.is_open('F-DOT') and _dotted_group_item(s):
            return 'F-DOT'
        if name == 'ColumnNotFoundError' and 'F-REFSPLIT' in trig and F.is_open('F-REFSPLIT'):
            return 'F-REFSPLIT'
        if name == 'ParseSyntaxException' and F.is_open('F-KWPREFIX') and 'F-KWPREFIX' in trig \
                and ("Expected '{'" in str(e) or "Expected ']'" in str(e)):
            return 'F-KWPREFIX'
        if name == 'ParseSyntaxException' and F.is_open('F-PROPNL') and "Expected ']'" in str(e) \
                and lines is not None and _prop_near_break(lines):
            return 'F-PROPNL'
        return None
    path, exp, act = detail
    if F.is_open('F-DOT') and '.groups[' in path and 'items' in path and _dotted_group_item(s):
        return 'F-DOT'            # ... silently, when it is the only one
    if F.is_open('F-DOT') and 'F-DOT' in trig and path.endswith('.type') and isinstance(exp, list) \
            and exp[0] == 'enum' and ('.' in exp[1] or '.' in exp[2]) and isinstance(act, list) and act[0] == 'plain':
        return 'F-DOT'
    if F.is_open('F-REFSPLIT') and 'F-REFSPLIT' in trig and (path.endswith('.c1') or path.endswith('.c2')) \
            and isinstance(exp, list) and isinstance(act, list) and len(exp) == len(act) \
            and all(a == e.strip('() ') for a, e in zip(act, exp)):
        return 'F-REFSPLIT'       # the stripped name happens to be another column of the table: silent misbinding
    return None


def _prop_near_break(lines) -> bool:
    for i, l in enumerate(lines):
        if l.kind == 'settings_cont' or l.part == 'first':
            if any(t.cls == 'propkey' for t in l.toks):
                return True
            # a property on the neighbouring physical line of the same logical line
    return False


def evaluate_text(s: ASchema, text: str, lines=None, gen_name='?', ctx: Ctx = None, record=True):
    from pydbml import PyDBML
    case = dict(schema=model.to_json(s), text=text, gen=gen_name)
    viols = []
    try:
        db = PyDBML.parse(text, allow_properties=True) if s.allow_properties else PyDBML(text) if text else PyDBML.parse(text)
    except allowed_parse_exceptions() as e:
        viols.append(Viol(f'rejected:{type(e).__name__}', f'well-formed document rejected: {type(e).__name__}: {e}',
                          case, finding=explain('parse', e, s, text, lines), size=len(text)))
        db = None
    except Exception as e:  # internal error: also a C01 failure (nothing was parsed)
        viols.append(Viol(f'crash:{exc_key(e)}', f'parser escaped with {type(e).__name__}: {e}', case, size=len(text)))
        db = None
    content = None
    if db is not None:
        content = extract(db)
        for path, exp, act in model.diff(model.expected(s), content):
            viols.append(Viol(f'diff:{model.path_class(path)}',
                              f'{path}: declared {exp!r}, parsed {act!r}', case,
                              finding=explain('diff', (path, exp, act), s, text, lines), size=len(text)))
    if ctx is not None and record:
        sample = None
        nt = nontrivial(s)
        if nt and len(ctx.samples) < ctx.MAX_SAMPLES and len(text) < 900:
            sample = dict(text=text)
        ctx.record(thash(text), nt, classify(s, lines) + [f'gen:{gen_name}'], sample)
    return viols, content


def replay(case):
    s = model.from_json(case['schema'])
    viols, _ = evaluate_text(s, case['text'])
    return viols


def evaluate_schema(s: ASchema, styles, gen_name, ctx: Ctx):
    """Write `s` in each style, check MODEL on each and METAMORPHIC agreement between them."""
    out = []
    contents = []
    for stl in styles:
        text, lines = write(s, stl)
        viols, content = evaluate_text(s, text, lines, gen_name, ctx)
        out += viols
        if content is not None:
            contents.append((text, content))
    for text, content in contents[1:]:
        d = model.diff(contents[0][1], content)
        if d:
            path, a, b = d[0]
            case = dict(schema=model.to_json(s), text=text, text_other=contents[0][0], gen=gen_name)
            out.append(Viol(f'metamorphic:{model.path_class(path)}',
                            f'two spellings of one schema parse differently at {path}: {a!r} vs {b!r}',
                            case, size=len(text)))
    return out


def decoy_of(s: ASchema) -> ASchema:
    """A document with the same names but the opposite type resolutions (enum <-> plain) that is rejected while
    the database is built (a reference to a table that does not exist)."""
    import copy
    d = copy.deepcopy(s)
    d.enums = []
    plain_words = []
    for t in d.tables:
        for c in t.columns:
            c.refs = []
            if c.type[0] == 'enum':
                c.type = ('plain', c.type[2] if c.type[1] == 'public' else f'{c.type[1]}.{c.type[2]}')
            elif c.type[1].isidentifier() and c.type[1].isascii() and c.type[1].lower() not in RESERVED:
                plain_words.append(c.type[1])
                c.type = ('enum', 'public', c.type[1])
    for w in sorted(set(plain_words)):
        d.enums.append(AEnum('public', w, [AEnumItem('decoy_item')]))
    d.refs = [ARef('>', d.tables[0].key, [d.tables[0].columns[0].name], ('public', 'no such table'), ['id'])] if d.tables else []
    d.groups, d.layout = [], []
    return d


def after_failed_build(s: ASchema, style, ctx: Ctx):
    from pydbml import PyDBML
    if s.tables:
        dtext, _ = write(decoy_of(s), Style())
        try:
            PyDBML.parse(dtext, allow_properties=True) if s.allow_properties else PyDBML.parse(dtext)
            ctx.extra['decoy_accepted'] = ctx.extra.get('decoy_accepted', 0) + 1
        except Exception:  # noqa -- expected: the decoy is rejected
            pass
    return evaluate_schema(s, [style], 'after-failed-build', ctx)


# ---------------------------------------------------------------------------------------------
# layer (i): exhaustive per-element products

NAME_CYCLE = ['c{}', 'col {}', 'unique', 'é{}', 'C_{}', "it's {}", 'note', '{}', 'x-{}', 'Default']


def _nm(i: int, used: set) -> str:
    base = NAME_CYCLE[i % len(NAME_CYCLE)]
    n = base.format(i) if '{}' in base else base
    if n in used:
        n = f'{n}{i}'
    used.add(n)
    return n


DEFAULTS = [None, ('int', 7), ('float', 1.5), ('bool', True), ('bool', False), ('str', "it's"), ('expr', 'now()'),
            ('null', None), ('int', 0), ('str', ''), ('str', 'true')]
NOTES = [None, 'single', "line one\n  line 'two'\nthree"]
TYPES = [('plain', 'int'), ('plain', 'varchar(255)'), ('plain', 'int[]'), ('enum', 'public', 'e1'),
         ('enum', 's1', 'e2'), ('plain', 'decimal(10, 2)'), ('plain', 'geo.point')]


def column_product():
    for flags in itertools.product([False, True], repeat=4):
        for d in DEFAULTS:
            for n in NOTES:
                for r in [None, '>', '<', '-', '<>']:
                    for ty in TYPES:
                        yield flags, d, n, r, ty


def pack_columns(per_table=30):
    enums = [AEnum('public', 'e1', [AEnumItem('a'), AEnumItem('b')]), AEnum('s1', 'e2', [AEnumItem('x')])]
    prod = list(column_product())
    for k in range(0, len(prod), per_table):
        chunk = prod[k:k + per_table]
        used = set()
        cols = []
        target = ATable('s1', 'target', [AColumn('a', ('plain', 'int')), AColumn('b', ('plain', 'int'))], alias='tg')
        for i, (flags, d, n, r, ty) in enumerate(chunk):
            c = AColumn(_nm(k + i, used), ty, pk=flags[0], unique=flags[1], not_null=flags[2], autoinc=flags[3],
                        default=d, note=n)
            cols.append(c)
        t = ATable('public', 'packed', cols)
        for c, (flags, d, n, r, ty) in zip(cols, chunk):
            if r is not None:
                c.refs.append(ARef(r, t.key, [c.name], target.key, ['a'], inline=True))
        s = ASchema(tables=[target, t], enums=enums)
        yield 'columns', s


def pack_indexes(per_table=28):
    shapes = [[('col', 'a')], [('col', 'a'), ('col', 'b c')], [('expr', 'lower(a)')],
              [('col', 'b c'), ('expr', 'a*2'), ('col', 'a')]]
    prod = list(itertools.product(shapes, [False, True], [False, True], [None] + gen.INDEX_TYPES,
                                  [None, "ix 'name'"], [None, 'note', 'multi\nline']))
    for k in range(0, len(prod), per_table):
        idx = [AIndex(list(sh), name=nm, unique=u, type=ty, pk=pk, note=nt) for sh, u, pk, ty, nm, nt in prod[k:k + per_table]]
        t = ATable('s1', 'ix table', [AColumn('a', ('plain', 'int')), AColumn('b c', ('plain', 'text'))], indexes=idx)
        yield 'indexes', ASchema(tables=[t])


def pack_refs(per_doc=24):
    acts = [None] + gen.ACTIONS
    prod = list(itertools.product(['>', '<', '-', '<>'], [1, 2], [None, 'fk name'], acts, acts))
    for k in range(0, len(prod), per_doc):
        t1 = ATable('public', 'left', [AColumn('id', ('plain', 'int')), AColumn('k 2', ('plain', 'int'))], alias='L')
        t2 = ATable('s1', 'right', [AColumn('id', ('plain', 'int')), AColumn('ref', ('plain', 'int'))])
        s = ASchema(tables=[t1, t2])
        for j, (kind, n, name, up, de) in enumerate(prod[k:k + per_doc]):
            a, b = (t1, t2) if j % 2 == 0 else (t2, t1)
            if j % 5 == 4:
                b = a
            c1 = [c.name for c in a.columns][:n]
            c2 = [c.name for c in b.columns][:n]
            if j % 3 == 0:
                c2 = list(reversed(c2))
            # names make otherwise identical references distinct
            nm = f'{name} {k + j}' if name else None
            if nm is None and any((r.kind, r.t1, r.c1, r.t2, r.c2, r.on_update, r.on_delete) ==
                                  (kind, a.key, c1, b.key, c2, up, de) for r in s.refs):
                nm = f'n{k + j}'
            s.refs.append(ARef(kind, a.key, c1, b.key, c2, name=nm, on_update=up, on_delete=de))
        yield 'refs', s


def pack_misc():
    # table headers
    tabs = []
    for i, (sch, alias, col, note) in enumerate(itertools.product(['public', 'my schema'], [None, 'al{}'],
                                                                   [None, '#AbC', '#123456'], NOTES)):
        tabs.append(ATable(sch, f'h{i}', [AColumn('id', ('plain', 'int'))], alias=alias.format(i) if alias else None,
                           header_color=col, note=note))
    for k in range(0, len(tabs), 12):
        chunk = tabs[k:k + 12]
        s = ASchema(tables=chunk)
        s.groups = [AGroup(f'g{k}', [t.key for t in chunk[:5]], note=NOTES[k % 3], color=[None, '#fff'][k % 2]),
                    AGroup(f'group {k}', [], note=NOTES[(k + 1) % 3]),
                    AGroup('enum', [chunk[-1].key, chunk[0].key])]
        s.stickies = [ASticky('s1', 'text'), ASticky('two words', "multi\n  'line'\nsticky"), ASticky('s1', 'dup name')]
        s.project = AProject(f'p {k}', [('database_type', 'PostgreSQL'), ('k2', "v'2")] if k % 24 == 0 else [],
                             note=NOTES[(k // 12) % 3])
        yield 'misc', s
    # enums
    ens = []
    for i, (sch, n) in enumerate(itertools.product(['public', 's1', 'enum'], [1, 2, 4])):
        items = [AEnumItem(f'it{j}' if j % 2 else f'item {j}', note=NOTES[(i + j) % 3]) for j in range(n)]
        ens.append(AEnum(sch, f'e{i}', items))
    t = ATable('public', 'uses', [AColumn(f'c{i}', ('enum', e.schema, e.name)) for i, e in enumerate(ens)])
    yield 'misc', ASchema(tables=[t], enums=ens)


def enumerated():
    for g in (pack_columns(), pack_indexes(), pack_refs(), pack_misc()):
        for item in g:
            yield item


# ---------------------------------------------------------------------------------------------

def _rnd(ctx: Ctx, *key):
    return random.Random(ctx.hseed('style/' + '/'.join(map(str, key))))


def shard(ctx: Ctx):
    quick = ctx.tier == 'quick'
    feats = strict_features()
    wfeat = frozenset(f for f in feats if f == 'prop_newline')
    k_styles = 2 if quick else 5
    # (i) exhaustive products
    docs = list(enumerated())
    for n, (gname, s) in enumerate(docs):
        if n % ctx.nshards != ctx.shard:
            continue
        styles = [Style()] + [Style(_rnd(ctx, n, j), 1.0, wfeat) for j in range(k_styles)]
        ctx.add(evaluate_schema(s, styles, f'product:{gname}', ctx))
    ctx.exhaustive_arms.append(f'per-element products: {len(docs)} packed documents x (canonical + {k_styles} sampled styles)')

    # (ii) sampled whole documents
    n = 70 if quick else 700
    sizes = gen.QUICK if quick else gen.THOROUGH

    @st.composite
    def cases(draw):
        s = draw(gen.schemas(feats, sizes))
        st1 = draw(gen.styles(features=wfeat))
        st2 = draw(gen.styles(features=wfeat))
        return s, [Style(), st1, st2]

    hyp_run(ctx, 'docs', cases(), lambda c: evaluate_schema(c[0], c[1], 'sampled', ctx), n)

    # (ii-b) the same, but right after a *related* document was rejected while the database was being built:
    # the result depends only on the document, not on what the parser saw before
    hyp_run(ctx, 'after-failed-build', cases(), lambda c: after_failed_build(c[0], c[1][1], ctx), max(10, n // 3))

    # (iii) zone arms: trigger of an open destructive finding forced in
    for feat, fid in DESTRUCTIVE.items():
        if not F.is_open(fid):
            continue
        zf = frozenset(feats | {feat} | ({'props'} if feat in ('prop_newline', 'kw_prefix_name') else set()))
        zw = frozenset(f for f in zf if f == 'prop_newline')

        @st.composite
        def zcases(draw, zf=zf, zw=zw):
            s = draw(gen.schemas(zf, sizes, min_tables=1))
            return s, [draw(gen.styles(features=zw))]

        before = ctx.known.get(fid, 0)
        hyp_run(ctx, f'zone:{feat}', zcases(), lambda c: evaluate_schema(c[0], c[1], f'zone:{feat}', ctx),
                12 if quick else 60)
        ctx.excluded[feat] += 0
