"""C09 — the container stays consistent under any sequence of add, delete and rename.

Histories over a fixed universe built for clashes (equal-content copies, a reused alias, an alias equal to
another table's full name, same-named enums and groups, an equal reference, a reference whose tables stay
outside, two projects, objects of unsupported type), interleaved with clash-free renames and with column /
index operations one level down.  INVARIANT oracle against a reference model (Python lists + a name function
computed from the *current* names) after every step; a rejected operation must raise the documented error and
change nothing.  (i) exhaustive: all histories up to depth 3 (quick) / 4 (thorough) over the concrete operations;
(ii) Hypothesis-generated histories up to length 60 (shrunk as one value).
"""
from __future__ import annotations

import itertools

from hypothesis import strategies as st

from ..core import Ctx, Viol, hyp_run, jhash

RULE = ('histories = sequences of concrete operations (add / delete of every universe object, clash-free renames of '
        'name, schema and alias, add_column / delete_column / add_index / delete_index by object and position): all '
        'histories up to depth 3|4 exhaustively + Hypothesis histories up to length 60. non-trivial: the history '
        'contains a rejected call, or delete-then-re-add, or a rename followed by a lookup-changing operation; '
        'distinct by operation sequence')
ASSUMPTIONS = ['renames never create a clash (the library cannot veto an attribute write; the statement promises lookup under current names)',
               'deleting a column through an equal-but-not-identical copy is judged by a two-outcome validity predicate (refused unchanged, or the stored twin removed and detached; the foreign object stays attached); for tables / enums / references such deletes are not generated (whether equality or identity selects the victim is not fixed by the statement)',
               'the same sticky note / column / index is not added twice and positions are in range']
FLOORS = {'quick': {'rejected': 1000, 'readd': 50, 'rename': 1000}, 'thorough': {'rejected': 10000, 'readd': 1000, 'rename': 10000}}

TABLES = ['A', 'A2', 'B', 'C', 'D', 'E']
ENUMS = ['E1', 'E1c', 'E2', 'E3']
GROUPS = ['G1', 'G2', 'G3']
REFS = ['R1', 'R1c', 'R2', 'R3', 'R4', 'R5']  # R3: tables in no database; R4: tables in another database; R5: inline
STICKY = ['S1', 'S2', 'S3']      # S3 has empty text: a falsy object
PROJ = ['P1', 'P2']
BAD = ['X1', 'X2']
OBJS = TABLES + ENUMS + GROUPS + REFS + STICKY + PROJ + BAD
RENAMES = [('A', 'name', 'a9'), ('A', 'name', 'a'), ('B', 'alias', 'y'), ('B', 'alias', 'x'), ('B', 'schema', 's2'),
           ('B', 'schema', 'public'), ('E', 'name', 'b'), ('E', 'name', 'e'), ('C', 'alias', None), ('D', 'alias', 'dd')]
COLS = ['K1', 'K2', 'K3']
IDX = ['I1', 'I1c', 'I2', 'IF', 'IE', 'IEF', 'ISF', 'IOF']   # I1c equals I1 (duplicates are allowed in a table); IF has a foreign column as subject;
# IE = expression + own column (legal); IEF / ISF / IOF = a foreign column after an expression / a string / an own column
TOPS = [('add', o) for o in OBJS] + [('delete', o) for o in OBJS if o not in BAD] + [('delete', 'X1')] + \
       [('rename',) + r for r in RENAMES] + [('render', 'sql'), ('render', 'dbml')]
TABLE_OPS = [('add_column', t, k) for t in ('A', 'E') for k in COLS] + [('delete_column', t, k) for t in ('A', 'E') for k in COLS] + \
            [('delete_column_pos', t, p) for t in ('A', 'E') for p in (0, -1)] + \
            [('add_index', t, i) for t in ('A',) for i in IDX] + [('delete_index', 'A', i) for i in IDX] + [('delete_index_pos', 'A', 0)] + \
            [('add_column_bad', 'A', 'X1'), ('add_index_bad', 'A', 'X1'), ('delete_column_copy', 'A', 'A2'), ('delete_column_copy', 'A2', 'A')]
ALL_OPS = TOPS + TABLE_OPS
KEYS = ['public.a', 'public.a9', 'public.b', 's2.b', 's.a', 'public.d', 'public.e', 'x', 'y', 'dd', 'public.b ', 'a', 'nope']


class World:
    def __init__(self):
        from pydbml import Database
        from pydbml.classes import Column, Enum, Expression, Index, Project, Reference, StickyNote, Table, TableGroup
        o = {}

        def table(name, schema='public', alias=None):
            t = Table(name, schema=schema, alias=alias)
            t.add_column(Column('id', 'int', pk=True))
            t.add_column(Column('v', 'text'))
            return t
        o['A'], o['A2'] = table('a'), table('a')
        o['B'] = table('b', alias='x')
        o['C'] = table('a', schema='s', alias='x')
        o['D'] = table('d', alias='public.b')
        o['E'] = table('e')
        self.out1, self.out2 = table('out1'), table('out2')
        o['E1'], o['E1c'] = Enum('e', ['a']), Enum('e', ['a'])
        o['E2'] = Enum('e', ['a'], schema='s')
        o['E3'] = Enum('e', ['z', 'y'])
        o['G1'] = TableGroup('g', [o['A']])
        o['G2'] = TableGroup('g', [o['B']])
        o['G3'] = TableGroup('h', [])
        o['R1'] = Reference('>', o['A'].columns[0], o['B'].columns[0])
        o['R1c'] = Reference('>', o['A'].columns[0], o['B'].columns[0])
        o['R2'] = Reference('<', o['B'].columns[0], o['E'].columns[0], name='r2')
        o['R3'] = Reference('-', self.out1.columns[0], self.out2.columns[0])
        o['R5'] = Reference('>', o['E'].columns[1], o['B'].columns[0], inline=True)
        self.db2 = Database()
        self.in2a, self.in2b = table('in2a'), table('in2b')
        self.db2.add(self.in2a)
        self.db2.add(self.in2b)
        o['R4'] = Reference('>', self.in2a.columns[0], self.in2b.columns[0])
        o['S1'], o['S2'] = StickyNote('s', 'one'), StickyNote('s', 'one')
        o['S3'] = StickyNote('empty', '')
        o['P1'], o['P2'] = Project('p'), Project('p')
        o['X1'], o['X2'] = object(), 'a string'
        o['K1'], o['K2'], o['K3'] = Column('k1', 'int'), Column('k2', 'int'), Column('id', 'int')
        o['I1'] = Index([o['A'].columns[0]], name='i1')
        o['I1c'] = Index([o['A'].columns[0]], name='i1')
        o['I2'] = Index([o['A'].columns[1], o['A'].columns[0]], unique=True)
        o['IF'] = Index([o['B'].columns[0]])
        o['IE'] = Index([Expression('lower(x)'), o['A'].columns[0]])
        o['IEF'] = Index([Expression('lower(x)'), o['B'].columns[0]])
        o['ISF'] = Index(['v', o['B'].columns[0]])
        o['IOF'] = Index([o['A'].columns[0], o['B'].columns[0]])
        self.o = o
        self.db = Database()
        # model
        self.m = {'tables': [], 'enums': [], 'groups': [], 'refs': [], 'sticky': [], 'project': None}
        self.cols = {n: list(o[n].columns) for n in TABLES}
        self.idx = {n: [] for n in TABLES}
        self.ref_tables = {'R1': ('A', 'B'), 'R1c': ('A', 'B'), 'R2': ('B', 'E'), 'R3': (), 'R4': (), 'R5': ('E', 'B')}

    # -- model helpers ---------------------------------------------------------------------------
    def keys_of(self, name):
        t = self.o[name]
        ks = [f'{t.schema}.{t.name}']
        if t.alias:
            ks.append(t.alias)
        return ks

    def all_keys(self, skip=None):
        out = {}
        for n in self.m['tables']:
            if n == skip:
                continue
            for k in self.keys_of(n):
                out[k] = n
        return out

    def twin(self, name):
        return {'A': 'A2', 'A2': 'A', 'E1': 'E1c', 'E1c': 'E1', 'R1': 'R1c', 'R1c': 'R1'}.get(name)

    def equal_now(self, a, b):
        """whether the two universe objects are structurally equal at this moment (model-side definition)"""
        if a in TABLES:
            ta, tb = self.o[a], self.o[b]
            return (ta.schema, ta.name, ta.alias) == (tb.schema, tb.name, tb.alias) and \
                [c.name for c in self.cols[a]] == [c.name for c in self.cols[b]] and not self.idx[a] and not self.idx[b]
        return True


def apply(w: World, op):
    """Apply one operation to the real objects and to the model.
    Returns (status, problems): status in accepted|rejected|skipped."""
    import pydbml.exceptions as E
    o, db, m = w.o, w.db, w.m
    kind = op[0]
    probs = []

    def call(fn, expect_reject, errs=(E.DatabaseValidationError,)):
        try:
            fn()
        except errs as e:
            if not expect_reject:
                probs.append(f'{op}: rejected with {type(e).__name__} ({e}) although the operation is valid')
            return 'rejected'
        except Exception as e:  # noqa
            probs.append(f'{op}: raised {type(e).__name__}: {e}' + ('' if expect_reject else ' although the operation is valid'))
            return 'rejected'
        if expect_reject:
            probs.append(f'{op}: accepted although it must be rejected')
        return 'accepted'

    if kind == 'add':
        n = op[1]
        obj = o[n]
        if n in BAD:
            return call(lambda: db.add(obj), True), probs
        if n in TABLES:
            tw = w.twin(n)
            keys = w.all_keys()
            reject = n in m['tables'] or any(k in keys for k in w.keys_of(n))
            st_ = call(lambda: db.add(obj), reject)
            if st_ == 'accepted' and not reject:
                m['tables'].append(n)
            return st_, probs
        if n in ENUMS:
            reject = n in m['enums'] or any((o[x].schema, o[x].name) == (obj.schema, obj.name) for x in m['enums'])
            st_ = call(lambda: db.add(obj), reject)
            if st_ == 'accepted' and not reject:
                m['enums'].append(n)
            return st_, probs
        if n in GROUPS:
            reject = n in m['groups'] or any(o[x].name == obj.name for x in m['groups'])
            st_ = call(lambda: db.add(obj), reject)
            if st_ == 'accepted' and not reject:
                m['groups'].append(n)
            return st_, probs
        if n in REFS:
            touches = any(t in m['tables'] and all(c in w.cols[t] for c in (obj.col1 if i == 0 else obj.col2))
                          for i, t in enumerate(w.ref_tables[n]))
            # a column deleted from its table no longer links the reference to the database
            touches = any(t in m['tables'] for i, t in enumerate(w.ref_tables[n])
                          if all(c.table is o[t] for c in (obj.col1 if i == 0 else obj.col2)))
            tw = w.twin(n)
            reject = n in m['refs'] or (tw in m['refs']) or not touches
            st_ = call(lambda: db.add(obj), reject)
            if st_ == 'accepted' and not reject:
                m['refs'].append(n)
            return st_, probs
        if n in STICKY:
            if n in m['sticky']:
                return 'skipped', probs
            st_ = call(lambda: db.add(obj), False)
            if st_ == 'accepted':
                m['sticky'].append(n)
            return st_, probs
        if n in PROJ:
            st_ = call(lambda: db.add(obj), False)
            if st_ == 'accepted':
                m['project'] = n
            return st_, probs
    if kind == 'delete':
        n = op[1]
        obj = o[n]
        if n in BAD:
            return call(lambda: db.delete(obj), True), probs
        lst = {**{t: 'tables' for t in TABLES}, **{e: 'enums' for e in ENUMS}, **{g: 'groups' for g in GROUPS},
               **{r: 'refs' for r in REFS}, **{s: 'sticky' for s in STICKY}}.get(n)
        if n in PROJ:
            reject = m['project'] != n
            st_ = call(lambda: db.delete(obj), reject)
            if st_ == 'accepted' and not reject:
                m['project'] = None
            return st_, probs
        tw = w.twin(n)
        if n not in m[lst] and tw is not None and tw in m[lst] and w.equal_now(n, tw):
            # deleting through an equal-but-not-identical object: the statement does not fix whether equality or
            # identity selects the victim.  Valid outcomes: refused (validation error, nothing changes) or the
            # stored twin is removed; the invariants then demand that whatever left the container is detached and
            # that the object passed in (never contained) still points to nothing.
            try:
                db.delete(obj)
                m[lst].remove(tw)
                st_ = 'accepted'
            except E.DatabaseValidationError:
                st_ = 'rejected'
            except Exception as e:  # noqa
                probs.append(f'{op}: raised {type(e).__name__}: {e}')
                st_ = 'rejected'
            return st_, probs
        reject = n not in m[lst]
        st_ = call(lambda: db.delete(obj), reject)
        if st_ == 'accepted' and not reject:
            m[lst].remove(n)
        return st_, probs
    if kind == 'render':
        # an observer: evaluating a rendering must not change the container (a refusal of an inconsistent
        # intermediate state by one of the library's own exceptions is fine)
        try:
            getattr(db, op[1])
        except tuple(v for v in vars(E).values() if isinstance(v, type) and issubclass(v, Exception)):
            pass
        except Exception as e:  # noqa
            probs.append(f'{op}: rendering raised {type(e).__name__}: {e}')
        return 'accepted', probs
    if kind == 'rename':
        _, n, attr, val = op
        t = o[n]
        if getattr(t, attr) == val:
            return 'skipped', probs
        old = getattr(t, attr)
        setattr(t, attr, val)
        new_keys = w.keys_of(n)
        others = w.all_keys(skip=n) if n in m['tables'] else w.all_keys()
        tw = w.twin(n)
        clash = any(k in others for k in new_keys) or len(set(new_keys)) != len(new_keys)
        # never create a second table that is equal to a contained one, nor a clash
        if clash or (tw and w.equal_now(n, tw) and (tw in m['tables'] or n in m['tables'])):
            setattr(t, attr, old)
            return 'skipped', probs
        return 'accepted', probs
    # -- one level down -----------------------------------------------------------------------
    if kind in ('add_column', 'add_column_bad'):
        _, tn, kn = op
        t, c = o[tn], o[kn]
        if kind == 'add_column_bad':
            return call(lambda: t.add_column(c), True, (TypeError,)), probs
        if c.table is not None or any(c is x for cols in w.cols.values() for x in cols):
            return 'skipped', probs
        if any(x.name == c.name for x in w.cols[tn]):
            return 'skipped', probs       # duplicate column names: lookup by name is then ambiguous
        st_ = call(lambda: t.add_column(c), False)
        if st_ == 'accepted':
            w.cols[tn].append(c)
        return st_, probs
    if kind == 'delete_column':
        _, tn, kn = op
        t, c = o[tn], o[kn]
        present = any(c is x for x in w.cols[tn])
        if not present and any(x == c for x in t.columns):
            return 'skipped', probs
        st_ = call(lambda: t.delete_column(c), not present, (E.ColumnNotFoundError,))
        if st_ == 'accepted' and present:
            w.cols[tn] = [x for x in w.cols[tn] if x is not c]
            w.gone_cols = getattr(w, 'gone_cols', []) + [c]
        return st_, probs
    if kind == 'delete_column_copy':
        # delete through an equal-but-not-identical column (same name/settings, table of the same full name).
        # The statement does not fix whether equality or identity selects the victim, so two outcomes are valid:
        # (a) refused with ColumnNotFoundError and nothing changes; (b) the stored twin is removed and detached.
        # In both the foreign object passed in must stay attached to its own table.
        _, tn, on = op
        t, other = o[tn], o[on]
        if not w.cols[tn] or not w.cols[on]:
            return 'skipped', probs
        mine, copy_ = w.cols[tn][0], w.cols[on][0]
        if mine is copy_ or not (mine == copy_):
            return 'skipped', probs
        try:
            got = t.delete_column(copy_)
            if got is not mine:
                probs.append(f'{op}: removed {got!r}, which is not the stored twin')
            w.cols[tn] = w.cols[tn][1:]
            w.gone_cols = getattr(w, 'gone_cols', []) + [mine]
            st_ = 'accepted'
        except E.ColumnNotFoundError:
            st_ = 'rejected'
        except Exception as e:  # noqa
            probs.append(f'{op}: raised {type(e).__name__}: {e}')
            st_ = 'rejected'
        if copy_.table is not other:
            probs.append(f'{op}: the column passed in (it belongs to {on}) lost its own table back-pointer')
        if any(c.table is not other for c in w.cols[on]) or len(other.columns) != len(w.cols[on]):
            probs.append(f'{op}: table {on} was changed')
        return st_, probs
    if kind == 'delete_column_pos':
        _, tn, p = op
        t = o[tn]
        if len(w.cols[tn]) <= 1:
            return 'skipped', probs
        victim = w.cols[tn][p]
        res = []
        st_ = call(lambda: res.append(t.delete_column(p)), False)
        if st_ == 'accepted':
            if res[0] is not victim:
                probs.append(f'{op}: returned another object than the column at that position')
            w.cols[tn] = [x for x in w.cols[tn] if x is not victim]
            w.gone_cols = getattr(w, 'gone_cols', []) + [victim]
        return st_, probs
    if kind in ('add_index', 'add_index_bad'):
        _, tn, iname = op
        t, ix = o[tn], o[iname]
        if kind == 'add_index_bad':
            return call(lambda: t.add_index(ix), True, (TypeError,)), probs
        if ix.table is not None or any(ix is x for v in w.idx.values() for x in v):
            return 'skipped', probs
        from pydbml.classes import Column
        foreign = any(isinstance(s, Column) and not any(s is c for c in w.cols[tn]) for s in ix.subjects)
        st_ = call(lambda: t.add_index(ix), foreign, (E.ColumnNotFoundError,))
        if st_ == 'accepted' and not foreign:
            w.idx[tn].append(ix)
        return st_, probs
    if kind == 'delete_index':
        _, tn, iname = op
        t, ix = o[tn], o[iname]
        present = any(ix is x for x in w.idx[tn])
        equal_present = any(x == ix for x in t.indexes)
        if not present and not equal_present:
            return call(lambda: t.delete_index(ix), True, (E.IndexNotFoundError,)), probs
        # an equal index may be stored next to (or instead of) the one passed in: exactly ONE element equal to the
        # argument leaves the list, it is detached, the others keep their order and stay attached
        before = list(t.indexes)
        try:
            t.delete_index(ix)
        except E.IndexNotFoundError as e:
            if present:
                probs.append(f'{op}: rejected ({e}) although the index is in the table')
            return 'rejected', probs
        except Exception as e:  # noqa
            probs.append(f'{op}: raised {type(e).__name__}: {e}')
            return 'rejected', probs
        after = list(t.indexes)
        gone = [x for x in before if not any(x is y for y in after)]
        if len(after) != len(before) - 1 or len(gone) != 1 or not (gone[0] is ix or gone[0] == ix):
            probs.append(f'{op}: {len(before) - len(after)} indexes left the table, expected exactly one equal to the argument')
        elif [id(x) for x in before if x is not gone[0]] != [id(x) for x in after]:
            probs.append(f'{op}: the remaining indexes changed order')
        else:
            w.idx[tn] = after
            w.gone_idx = getattr(w, 'gone_idx', []) + gone
        return 'accepted', probs
    if kind == 'delete_index_pos':
        _, tn, p = op
        t = o[tn]
        if not w.idx[tn]:
            return 'skipped', probs
        victim = w.idx[tn][p]
        st_ = call(lambda: t.delete_index(p), False)
        if st_ == 'accepted':
            w.idx[tn] = [x for x in w.idx[tn] if x is not victim]
            w.gone_idx = getattr(w, 'gone_idx', []) + [victim]
        return st_, probs
    raise ValueError(op)


def invariants(w: World):
    o, db, m = w.o, w.db, w.m
    probs = []

    def same(actual, names, what):
        want = [o[n] for n in names]
        if len(actual) != len(want) or any(a is not b for a, b in zip(actual, want)):
            probs.append(f'{what}: holds {[_nm(w, x) for x in actual]}, model {names}')
    same(list(db), m['tables'], 'iteration')
    same(db.tables, m['tables'], 'db.tables')
    same(db.enums, m['enums'], 'db.enums')
    same(db.table_groups, m['groups'], 'db.table_groups')
    same(db.refs, m['refs'], 'db.refs')
    same(db.sticky_notes, m['sticky'], 'db.sticky_notes')
    if db.project is not (o[m['project']] if m['project'] else None):
        probs.append(f'db.project is {_nm(w, db.project)}, model {m["project"]}')
    for i, n in enumerate(m['tables']):
        try:
            if db[i] is not o[n]:
                probs.append(f'db[{i}] is not table {n}')
        except Exception as e:  # noqa
            probs.append(f'db[{i}] raised {type(e).__name__}')
    keys = w.all_keys()
    for k in set(KEYS) | set(keys):
        try:
            got = db[k]
        except KeyError:
            got = None
        except Exception as e:  # noqa
            probs.append(f'db[{k!r}] raised {type(e).__name__}: {e}')
            continue
        want = o[keys[k]] if k in keys else None
        if got is not want:
            probs.append(f'db[{k!r}] gives {_nm(w, got)}, current names say {keys.get(k)}')
    contained = set(m['tables']) | set(m['enums']) | set(m['groups']) | set(m['refs']) | set(m['sticky']) | ({m['project']} if m['project'] else set())
    for n in OBJS:
        if n in BAD:
            continue
        d = getattr(o[n], 'database', None)
        if n in contained and d is not db:
            probs.append(f'{n} is contained but .database is {d!r}')
        if n not in contained and d is not None:
            probs.append(f'{n} is not contained but .database is {d!r}')
    for tn in ('A', 'E', 'A2'):
        t = o[tn]
        if len(t.columns) != len(w.cols[tn]) or any(a is not b for a, b in zip(t.columns, w.cols[tn])):
            probs.append(f'{tn}.columns {[c.name for c in t.columns]} != model {[c.name for c in w.cols[tn]]}')
            continue
        for i, c in enumerate(w.cols[tn]):
            if c.table is not t:
                probs.append(f'{tn}.{c.name}.table is not the table')
            try:
                if t[i] is not c or t[c.name] is not c or t.get(c.name) is not c:
                    probs.append(f'{tn}[{i}] / {tn}[{c.name!r}] is another object')
            except Exception as e:  # noqa
                probs.append(f'{tn}[{c.name!r}] raised {type(e).__name__}')
        if t.get('no such column') is not None:
            probs.append(f'{tn}.get(missing) is not None')
        if len(t.indexes) != len(w.idx[tn]) or any(a is not b for a, b in zip(t.indexes, w.idx[tn])):
            probs.append(f'{tn}.indexes differ from the model')
        for ix in w.idx[tn]:
            if ix.table is not t:
                probs.append(f'index of {tn}: .table is not the table')
    for c in getattr(w, 'gone_cols', []):
        if c.table is not None and not any(c is x for v in w.cols.values() for x in v):
            probs.append(f'removed column {c.name} still points to a table')
    for ix in getattr(w, 'gone_idx', []):
        if ix.table is not None and not any(ix is x for v in w.idx.values() for x in v):
            probs.append('removed index still points to a table')
    for n in IDX:
        if not any(o[n] is x for v in w.idx.values() for x in v) and o[n].table is not None:
            probs.append(f'index {n} is in no table but .table is set')
    return probs


def _nm(w, obj):
    for k, v in w.o.items():
        if v is obj:
            return k
    return repr(obj)


def run_history(ops, want_stats=False):
    w = World()
    statuses = []
    for k, op in enumerate(ops):
        op = tuple(op)
        st_, probs = apply(w, op)
        statuses.append(st_)
        probs += invariants(w)
        if probs:
            tag = probs[0].split(':')[0] if probs[0].startswith('(') else probs[0].split(' ')[0]
            case = dict(ops=[list(o) for o in ops[:k + 1]])
            return [Viol(f'c09:{op[0]}:{_cls(probs[0])}', f'after step {k + 1} {op}: ' + '; '.join(probs[:3]), case, size=k + 1)], statuses
    return [], statuses


def _cls(p: str) -> str:
    import re
    p = re.sub(r"\(.*?\): ", '', p, count=1)
    return re.sub(r"[A-Z]\w?\d?c?|'[^']*'|\d+", '_', p)[:60]


def classify(ops, statuses):
    cls = []
    if 'rejected' in statuses:
        cls.append('rejected')
    seen_del = set()
    for op, st_ in zip(ops, statuses):
        if op[0] == 'delete' and st_ == 'accepted':
            seen_del.add(op[1])
        if op[0] == 'add' and st_ == 'accepted' and op[1] in seen_del:
            cls.append('readd')
    ren = [i for i, (op, st_) in enumerate(zip(ops, statuses)) if op[0] == 'rename' and st_ == 'accepted']
    if ren and ren[0] < len(ops) - 1:
        cls.append('rename')
    return sorted(set(cls))


def evaluate(ops, ctx: Ctx = None, gen_name='?'):
    viols, statuses = run_history(ops)
    if ctx is not None:
        cls = classify(ops, statuses)
        ctx.record(jhash(ops), bool(cls), cls + [f'gen:{gen_name}'],
                   dict(ops=[' '.join(map(str, o)) for o in ops], outcome=statuses)
                   if cls and len(ctx.samples) < 3 and (gen_name == 'deep' or (len(ops) >= 3 and len(set(ops)) == len(ops) and 'rename' in cls)) else None)
    return viols


def replay(case):
    return run_history([tuple(o) for o in case['ops']])[0]


def shard(ctx: Ctx):
    quick = ctx.tier == 'quick'
    depth = 3 if quick else 4
    # exhaustive: top-level operations to full depth; table-level operations to full depth on their own
    n = 0
    for d in range(1, depth + 1):
        for k, ops in enumerate(itertools.product(TOPS, repeat=d)):
            if k % ctx.nshards == ctx.shard:
                ctx.add(evaluate(list(ops), ctx, 'exhaustive-top'))
    for d in range(1, depth + 1):
        for k, ops in enumerate(itertools.product(TABLE_OPS, repeat=d)):
            if k % ctx.nshards == ctx.shard:
                ctx.add(evaluate(list(ops), ctx, 'exhaustive-table'))
    # renderings as observers between operations: a reduced operation set, one level deeper
    focus = [('add', 'A'), ('add', 'B'), ('add', 'E'), ('add', 'R1'), ('add', 'R2'), ('add', 'R5'), ('delete', 'B'), ('delete', 'E'),
             ('render', 'sql'), ('render', 'dbml'), ('rename', 'B', 'alias', 'y')]
    for d in range(1, depth + 2):
        for k, ops in enumerate(itertools.product(focus, repeat=d)):
            if k % ctx.nshards == ctx.shard:
                ctx.add(evaluate(list(ops), ctx, 'exhaustive-render'))
    ctx.exhaustive_arms.append(f'all histories of depth <= {depth} over {len(TOPS)} container operations and over {len(TABLE_OPS)} table operations; '
                               f'all histories of depth <= {depth + 1} over {len(focus)} operations with renderings as observers')
    hyp_run(ctx, 'deep', st.lists(st.sampled_from(ALL_OPS), min_size=4, max_size=60), lambda ops: evaluate(ops, ctx, 'deep'),
            600 if quick else 8000)
