"""C18 — SQL creates a table before any table that references it inline.

(a) permutation: the CREATE TABLE sequence (minus predicted join tables) is a permutation of the
    database's tables -- always strict;
(b) determinism: two renderings, a rebuild of the same model and a rendering in a subprocess with a
    different PYTHONHASHSEED give the same order -- always strict;
(c) topological: when the inline references form no cycle, every inline FOREIGN KEY clause found in
    table H that references T != H comes after T's CREATE TABLE.
Open finding F-ORDER (pinned by the suite): the helper sorts by descending number of inline keys held.
A violating edge H->T is attributed to it iff held(H) > held(T), or held(H) == held(T) and H is declared
before T -- exactly what the counting heuristic produces; any other violating edge is a VIOLATION.
"""
from __future__ import annotations

import json
import os
import subprocess
import sys

from hypothesis import strategies as st

from .. import findings as F
from .. import gen, model
from ..build import build
from ..core import REPO, ROOT, Ctx, Viol, hyp_run, thash
from ..model import AColumn, ARef, ASchema, ATable
from ..sqlcheck import check_c18_order, qn
from ..sqlread import parse as sqlparse
from ..surface import write
from . import sqlcommon as C

RULE = ('databases whose inline-reference graph is a generated DAG (chains, trees, diamonds, random DAGs over '
        '2-10 tables, random declaration order, edges realised as inline > / < / -), with non-inline and '
        'many-to-many references as distractors, parsed and API-built; plus arbitrary (possibly cyclic) schemas '
        'for the permutation/determinism clauses. non-trivial: DAG with a path of length >= 2 or a node of '
        'in-degree >= 2; distinct by sha1 of (edges, declaration order, kinds)')
ASSUMPTIONS = ['F-ORDER (open, pinned by test_reorder_tables and integration1.sql) explains exactly the edges the '
               'counting heuristic mis-orders; permutation and determinism clauses have no tolerance']
FLOORS = {'quick': {'dag': 100, 'path2': 50, 'indeg2': 30}, 'thorough': {'dag': 2000, 'path2': 1000, 'indeg2': 500}}


@st.composite
def dags(draw, max_tables=8):
    n = draw(st.integers(2, max_tables))
    names = [f't{i}' for i in range(n)]
    schemas = [draw(st.sampled_from(['public', 'public', 's1'])) for _ in range(n)]
    # topological numbering 0..n-1: edge i -> j (i holds FK to j) only if j < i
    shape = draw(st.sampled_from(['chain', 'tree', 'diamond', 'random', 'random']))
    edges = set()
    if shape == 'chain':
        edges = {(i, i - 1) for i in range(1, n)}
    elif shape == 'tree':
        edges = {(i, draw(st.integers(0, i - 1))) for i in range(1, n)}
    elif shape == 'diamond':
        edges = {(i, 0) for i in range(1, n - 1)} | {(n - 1, i) for i in range(1, n - 1)} | ({(n - 1, 0)} if n == 2 else set())
    else:
        for i in range(1, n):
            for j in range(i):
                if draw(st.integers(0, 2)) == 0:
                    edges.add((i, j))
    order = draw(st.permutations(list(range(n))))
    tables = {}
    for i in range(n):
        tables[i] = ATable(schemas[i], names[i], [AColumn('id', ('plain', 'int'), pk=True)])
    for k, (h, t) in enumerate(sorted(edges)):
        kind = draw(st.sampled_from(['>', '<', '-']))
        col = AColumn(f'fk{k}', ('plain', 'int'))
        if kind in ('>', '-'):
            # declared on the holder: holder.fk > target.id
            tables[h].columns.append(col)
            col.refs.append(ARef(kind, tables[h].key, [col.name], tables[t].key, ['id'], inline=True))
        else:
            # '<' lands the key in the *other* table: declared on target.id: target.id < holder.fk
            tables[h].columns.append(col)
            tables[t].columns[0].refs.append(ARef('<', tables[t].key, ['id'], tables[h].key, [col.name], inline=True))
    s = ASchema(tables=[tables[i] for i in order])
    # distractors: standalone and many-to-many references (any direction, may close cycles: not inline)
    for k in range(draw(st.integers(0, 3))):
        a, b = draw(st.sampled_from(s.tables)), draw(st.sampled_from(s.tables))
        s.refs.append(ARef(draw(st.sampled_from(['>', '<', '-', '<>'])), a.key, ['id'], b.key, ['id'], name=f'd{k}'))
    return s, sorted(edges), n


def held(s: ASchema):
    """number of inline '>' / '<' keys each table holds (what the library's heuristic counts)"""
    h = {t.key: 0 for t in s.tables}
    for r in s.all_refs():
        if r.inline and r.kind == '>':
            h[r.t1] += 1
        elif r.inline and r.kind == '<':
            h[r.t2] += 1
    return h


def explains_order(s: ASchema, holder_q, target_q) -> bool:
    if not F.is_open('F-ORDER'):
        return False
    byq = {qn(*t.key): t.key for t in s.tables}
    hk, tk = byq[holder_q], byq[target_q]
    # the heuristic keys on the bare table name
    cnt = {}
    for k, v in held(s).items():
        cnt[k[1]] = cnt.get(k[1], 0) + v
    pos = {t.key: i for i, t in enumerate(s.tables)}
    ch, ct = cnt[hk[1]], cnt[tk[1]]
    return ch > ct or (ch == ct and pos[hk] < pos[tk])


def acyclic_inline(s: ASchema) -> bool:
    adj = {}
    for r in s.all_refs():
        if not r.inline or r.kind == '<>':
            continue
        h, t = (r.t1, r.t2) if r.kind in ('>', '-') else (r.t2, r.t1)
        if h != t:
            adj.setdefault(h, set()).add(t)
    state = {}

    def visit(u):
        if state.get(u) == 1:
            return False
        if state.get(u) == 2:
            return True
        state[u] = 1
        for v in adj.get(u, ()):
            if not visit(v):
                return False
        state[u] = 2
        return True
    return all(visit(u) for u in list(adj))


def table_order(sql):
    return [t.qname for t in sqlparse(sql).tables]


def check_db(s, db, case, topo=True):
    sql, v = C.render_sql(db, case)
    if v:
        return [v], None
    case = dict(case, sql=sql)
    p = sqlparse(sql)
    viols = []
    probs, bad_edges = check_c18_order(s, p)
    for key, msg in probs:
        viols.append(Viol(f'c18:{key}', msg, case, size=len(sql)))
    if topo and acyclic_inline(s):
        for h, t in bad_edges:
            fid = 'F-ORDER' if explains_order(s, h, t) else None
            viols.append(Viol('c18:topological', f'table {h} holds an inline FOREIGN KEY to {t} but is created first; '
                                                 f'order: {[x.qname for x in p.tables]}', case, finding=fid, size=len(sql)))
    try:
        if db.sql != sql:
            viols.append(Viol('c18:determinism.repeat', 'two consecutive renderings of .sql differ', case, size=len(sql)))
    except Exception as e:  # noqa
        viols.append(Viol('c18:determinism.repeat', f'second rendering raised {e!r}', case, size=len(sql)))
    return viols, sql


_SUB = r'''
import json, sys
sys.path.insert(0, %r); sys.path.insert(0, %r)
from pbt import model
from pbt.build import build
from pydbml import PyDBML
for line in sys.stdin:
    c = json.loads(line)
    s = model.from_json(c["schema"])
    db = PyDBML.parse(c["text"]) if c.get("text") else build(s)
    print(json.dumps(db.sql)); sys.stdout.flush()
'''


class OtherProcess:
    """A long-lived interpreter with a different PYTHONHASHSEED rendering the same models."""

    def __init__(self, hashseed):
        env = dict(os.environ, PYTHONHASHSEED=str(hashseed))
        self.p = subprocess.Popen([sys.executable, '-c', _SUB % (os.path.abspath(REPO), ROOT)], stdin=subprocess.PIPE,
                                  stdout=subprocess.PIPE, text=True, env=env, cwd=ROOT)

    def sql(self, case):
        self.p.stdin.write(json.dumps(dict(schema=case['schema'], text=case.get('text'))) + '\n')
        self.p.stdin.flush()
        line = self.p.stdout.readline()
        if not line:
            raise RuntimeError('helper process died')
        return json.loads(line)

    def close(self):
        try:
            self.p.stdin.close()
            self.p.wait(timeout=10)
        except Exception:  # noqa
            self.p.kill()


def evaluate(s, style, ctx: Ctx = None, gen_name='?', other=None, meta=None, topo=True, script=()):
    viols = []
    for how, db, text in C.databases(s, style, ctx):
        case = dict(schema=model.to_json(s), how=how, text=text, gen=gen_name)
        vs, sql = check_db(s, db, case, topo)
        viols += vs
        if script and sql is not None and not vs:
            # "depends only on the model": after in-place edits the order is that of a fresh build of the edited model
            try:
                s2 = C.edited(s, db, script)
            except Exception:  # noqa
                s2 = None
            if s2 is not None:
                case2 = dict(case, script=[list(x) for x in script], phase='edited')
                try:
                    live, fresh = table_order(db.sql), table_order(build(s2).sql)
                    if live != fresh:
                        viols.append(Viol('c18:determinism.after-edit', f'after render, in-place edits and render the table order is {live}, '
                                                                        f'a fresh build of the same model gives {fresh}', case2, size=len(sql)))
                    vs2, _ = check_db(s2, db, case2, topo)
                    viols += [Viol(v.bucket + ':after-edit', v.message, case2, finding=v.finding, size=v.size) for v in vs2]
                except Exception as e:  # noqa
                    viols.append(Viol(f'c18:after-edit:raise:{type(e).__name__}', f'rendering after edits raised {type(e).__name__}: {e}', case2))
                if ctx is not None:
                    ctx.record(thash('edited' + how + repr(model.to_json(s2))), False, ['phase:edited'])
        if sql is not None:
            # a rebuild of the same model gives the same order
            again = C.databases(s, style if how == 'parsed' else None)
            for how2, db2, _ in again:
                if how2 == how:
                    try:
                        if table_order(db2.sql) != table_order(sql):
                            viols.append(Viol('c18:determinism.rebuild', 'a rebuild of the same model orders the tables differently',
                                              dict(case, sql=sql), size=len(sql)))
                    except Exception:  # noqa
                        pass
            if other is not None:
                sql_o = other.sql(case)
                if table_order(sql_o) != table_order(sql):
                    viols.append(Viol('c18:determinism.hashseed',
                                      f'table order depends on the process / hash seed: {table_order(sql)} vs {table_order(sql_o)}',
                                      dict(case, sql=sql), size=len(sql)))
        if ctx is not None:
            cls = [f'how:{how}', f'gen:{gen_name}']
            nt = False
            if meta is not None:
                edges, n = meta
                cls.append('dag')
                indeg, out = {}, {}
                for h, t in edges:
                    indeg[t] = indeg.get(t, 0) + 1
                    out.setdefault(h, []).append(t)
                path2 = any(t in out for h, ts in out.items() for t in ts)
                if path2:
                    cls.append('path2')
                if any(v >= 2 for v in indeg.values()):
                    cls.append('indeg2')
                nt = path2 or any(v >= 2 for v in indeg.values())
            sample = dict(construction=how, sql=sql) if nt and sql and len(sql) < 700 and len(ctx.samples) < ctx.MAX_SAMPLES else None
            ctx.record(thash(how + (sql or '')), nt, cls, sample)
    return viols


def replay(case):
    from pydbml import PyDBML
    s = model.from_json(case['schema'])
    db = PyDBML.parse(case['text']) if case.get('how') == 'parsed' and case.get('text') else build(s)
    base = {k: v for k, v in case.items() if k != 'sql'}
    if case.get('phase') == 'edited':
        db.sql
        s2 = C.edited(s, db, [tuple(x) for x in case['script']])
        out = check_db(s2, db, base)[0]
        live, fresh = table_order(db.sql), table_order(build(s2).sql)
        if live != fresh:
            out.append(Viol('c18:determinism.after-edit', f'table order {live} vs fresh build {fresh}', base))
        return out
    return check_db(s, db, base)[0]


def shard(ctx: Ctx):
    quick = ctx.tier == 'quick'
    n = 60 if quick else 600
    other = OtherProcess(hashseed=12345 + ctx.shard)
    try:
        @st.composite
        def dcases(draw):
            s, edges, nn = draw(dags(8 if quick else 10))
            return s, draw(gen.styles()), (edges, nn)

        hyp_run(ctx, 'dags', st.tuples(dcases(), C.edit_scripts(3)), lambda c: evaluate(c[0][0], c[0][1], ctx, 'dag', other, c[0][2], True, c[1]), n)
        sizes = gen.Sizes(tables=6, columns=3, indexes=0, enums=0, items=1, refs=8, groups=0, stickies=0, props=0)
        hyp_run(ctx, 'arbitrary', st.tuples(C.cases(C.parse_features(), sizes, min_tables=2), C.edit_scripts(3)),
                lambda c: evaluate(c[0][0], c[0][1], ctx, 'arbitrary', other, None, True, c[1]), n // 2)
    finally:
        other.close()
