"""C11 — parsing is deterministic, history-independent and re-entrant.

DIFFERENTIAL against a pristine process: a helper process that has imported pydbml but never parsed
computes, in a freshly forked grandchild per document, the pristine outcome (content + rendered texts, or
exception class + message).  Histories (valid, rule-breaking, malformed and truncated documents, with options)
run in the long-lived shard process -- sequentially and in threads started on a barrier with a tiny switch
interval -- and every outcome must equal the pristine outcome of its document.  Isolation: editing one result
never changes another result of the same text nor later parses.  Reclamation: after the caller drops every
result and exception, no instance of a pydbml class created for the parse survives gc.collect(), and weak
references to returned databases are dead.  Grammar singletons: parse-action lists of the module-level
grammar elements never grow.
"""
from __future__ import annotations

import gc
import os
import pickle
import struct
import sys
import threading
import weakref

from hypothesis import strategies as st

from .. import gen, model
from ..core import Ctx, Viol, hyp_run, jhash, thash
from ..extract import extract
from . import c01, c06, c07

RULE = ('histories of 2-10 documents drawn from {valid, rule-breaking, malformed, truncated} x options, run '
        'sequentially and then in 2-8 threads, with edits of earlier results in between; each outcome compared with '
        'the outcome of the same document in a pristine process. non-trivial: a failing parse before a valid one, or '
        'an edit, or >= 2 threads (every history has the thread arm); distinct by sha1 of the document sequence')
ASSUMPTIONS = ['thread interleavings are sampled under the GIL with sys.setswitchinterval(1e-6); the harness does not own the schedule, '
               'so a race that needs one specific preemption point may be missed (sound, incomplete)',
               'pristine outcomes are computed in a forked grandchild of a helper process that never parses itself']
FLOORS = {'quick': {'fail_before_valid': 30, 'edit': 60, 'threads': 100}, 'thorough': {'fail_before_valid': 600, 'edit': 1200, 'threads': 2000}}


def outcome(text, props):
    from pydbml import PyDBML
    try:
        db = PyDBML.parse(text, allow_properties=True) if props else PyDBML.parse(text)
    except BaseException as e:  # noqa
        out = ('raise', type(e).__name__, str(e))
        del e
        return out, None
    try:
        return ('db', extract(db), db.dbml, db.sql, bool(db.allow_properties)), db
    except BaseException as e:  # noqa
        out = ('render-raise', type(e).__name__, str(e))
        del e
        return out, db


# -- pristine server -------------------------------------------------------------------------------

def _send(fd, obj):
    data = pickle.dumps(obj)
    os.write(fd, struct.pack('<I', len(data)))
    while data:
        n = os.write(fd, data)
        data = data[n:]


def _recv(fd):
    head = b''
    while len(head) < 4:
        chunk = os.read(fd, 4 - len(head))
        if not chunk:
            raise EOFError
        head += chunk
    n = struct.unpack('<I', head)[0]
    buf = b''
    while len(buf) < n:
        chunk = os.read(fd, n - len(buf))
        if not chunk:
            raise EOFError
        buf += chunk
    return pickle.loads(buf)


class Pristine:
    """Forked before this process parses anything; forks one grandchild per request."""

    def __init__(self):
        self.req_r, self.req_w = os.pipe()
        self.res_r, self.res_w = os.pipe()
        self.pid = os.fork()
        if self.pid == 0:
            try:
                os.close(self.req_w)
                os.close(self.res_r)
                while True:
                    try:
                        text, props = _recv(self.req_r)
                    except EOFError:
                        break
                    r, w = os.pipe()
                    g = os.fork()
                    if g == 0:
                        os.close(r)
                        try:
                            _send(w, outcome(text, props)[0])
                        finally:
                            os._exit(0)
                    os.close(w)
                    try:
                        res = _recv(r)
                    except EOFError:
                        res = ('child-died',)
                    os.close(r)
                    os.waitpid(g, 0)
                    _send(self.res_w, res)
            finally:
                os._exit(0)
        os.close(self.req_r)
        os.close(self.res_w)
        self.cache = {}

    def get(self, text, props):
        key = (text, props)
        if key not in self.cache:
            _send(self.req_w, (text, props))
            self.cache[key] = _recv(self.res_r)
            if len(self.cache) > 2000:
                self.cache.pop(next(iter(self.cache)))
        return self.cache[key]

    def close(self):
        try:
            os.close(self.req_w)
            os.waitpid(self.pid, 0)
        except Exception:  # noqa
            pass


_PRISTINE = None
_BASELINE = None


def pydbml_instances():
    n = {}
    for o in gc.get_objects():
        mod = getattr(type(o), '__module__', '') or ''
        if mod.startswith('pydbml'):
            n[type(o).__name__] = n.get(type(o).__name__, 0) + 1
    return n


def grammar_actions():
    import importlib
    import pyparsing as pp
    out = {}
    for m in ('generic', 'common', 'column', 'table', 'index', 'enum', 'reference', 'table_group', 'project', 'sticky_note'):
        mod = importlib.import_module(f'pydbml.definitions.{m}')
        for k, v in vars(mod).items():
            if isinstance(v, pp.ParserElement):
                out[f'{m}.{k}'] = len(v.parseAction)
    return out


def edit(db, k):
    """Mutate a returned database in place."""
    from pydbml.classes import Column, Note, Table
    if db.project is not None:
        db.project.items[f'edited{k}'] = 'x'
        db.project.note = Note('edited project note')
    for t in db.tables:
        t.properties[f'p{k}'] = 'edited'
        t.note = Note(f'edited {k}')
        t.name = t.name + f'_e{k}'
        for c in t.columns:
            c.properties['ck'] = 'edited'
            c.note.text = 'edited'
            c.name = c.name + '_e'
        t.add_column(Column(f'added{k}', 'int'))
    for e in db.enums:
        e.add_item(f'added{k}')
        e.name = e.name + '_e'
    nt = Table(f'brand_new_{k}')
    nt.add_column(Column('id', 'int'))
    db.add(nt)
    if db.tables:
        try:
            db.delete(db.tables[0])
        except Exception:  # noqa
            pass


def global_state():
    """Process-wide interpreter / pyparsing settings a parse has no business leaving changed: every one of them alters
    what later parses do (a raised recursion limit turns a RecursionError into a database, packrat or other default
    whitespace characters change what the grammar accepts, ...)."""
    import decimal
    import locale
    import pyparsing as pp
    return {
        'sys.getrecursionlimit()': sys.getrecursionlimit(),
        'pyparsing DEFAULT_WHITE_CHARS': pp.ParserElement.DEFAULT_WHITE_CHARS,
        'pyparsing packrat': bool(getattr(pp.ParserElement, '_packratEnabled', False)),
        'pyparsing left recursion': bool(getattr(pp.ParserElement, '_left_recursion_enabled', False)),
        'pyparsing verbose_stacktrace': bool(getattr(pp.ParserElement, 'verbose_stacktrace', False)),
        'gc.isenabled()': gc.isenabled(),
        'gc.get_threshold()': gc.get_threshold(),
        'threading.stack_size()': threading.stack_size(),
        'decimal context': (decimal.getcontext().prec, decimal.getcontext().rounding),
        'locale': locale.setlocale(locale.LC_ALL),
        'os.getcwd()': os.getcwd(),
        'os.environ': hash(frozenset(os.environ.items())),
        'sys.path': tuple(sys.path),
    }


def run_history(docs, nthreads, case):
    """docs: [(text, props)].  Returns (viols, stats)."""
    global _BASELINE
    viols = []
    P = _PRISTINE
    size = sum(len(t) for t, _ in docs)

    def V(bucket, msg):
        viols.append(Viol(bucket, msg, case, size=size))
    actions0 = grammar_actions()
    globals0 = global_state()

    def check_globals(phase):
        now = global_state()
        for k, v in now.items():
            if v != globals0[k]:
                V(f'c11:global-state:{k}', f'after the {phase} phase {k} is {v!r}, it was {globals0[k]!r} before the library was called')
                globals0[k] = v
    pristine = [P.get(t, p) for t, p in docs]
    # sequential
    results = []
    for i, (t, p) in enumerate(docs):
        out, db = outcome(t, p)
        results.append(db)
        if out != pristine[i]:
            V(f'c11:sequential:{_what(out, pristine[i])}', f'document {i} parsed after {i} other documents gives {_short(out)}, pristine process gives {_short(pristine[i])}')
    # again, same process: determinism, plus isolation under edits
    refs = [weakref.ref(db) for db in results if db is not None]
    twins = []
    for i, (t, p) in enumerate(docs):
        out, db = outcome(t, p)
        twins.append(db)
        if out != pristine[i]:
            V(f'c11:repeat:{_what(out, pristine[i])}', f'document {i} parsed a second time gives {_short(out)}, pristine {_short(pristine[i])}')
    edited = 0
    for k, db in enumerate(results):
        if db is not None:
            try:
                edit(db, k)
                edited += 1
            except Exception as e:  # noqa
                V(f'c11:edit-raised:{type(e).__name__}', f'editing a returned database raised {type(e).__name__}: {e}')
    for i, db in enumerate(twins):
        if db is not None and pristine[i][0] == 'db':
            try:
                now = ('db', extract(db), db.dbml, db.sql, bool(db.allow_properties))
            except Exception as e:  # noqa
                now = ('render-raise', type(e).__name__, str(e))
            if now != pristine[i]:
                V(f'c11:isolation:{_what(now, pristine[i])}', f'editing one result of document {i} changed another result of the same text: {_short(now)}')
    for i, (t, p) in enumerate(docs):
        out, db = outcome(t, p)
        del db
        if out != pristine[i]:
            V(f'c11:after-edit:{_what(out, pristine[i])}', f'document {i} parsed after earlier results were edited gives {_short(out)}, pristine {_short(pristine[i])}')
    check_globals('sequential')
    # threads
    if nthreads >= 2:
        outs = [None] * nthreads
        barrier = threading.Barrier(nthreads)
        plan = [[(j, docs[j]) for j in range(len(docs))][k % len(docs):] + [(j, docs[j]) for j in range(len(docs))][:k % len(docs)]
                for k in range(nthreads)]

        def work(k):
            got = []
            barrier.wait()
            for j, (t, p) in plan[k]:
                o, db = outcome(t, p)
                del db
                got.append((j, o))
            outs[k] = got
        old = sys.getswitchinterval()
        sys.setswitchinterval(1e-6)
        try:
            ths = [threading.Thread(target=work, args=(k,)) for k in range(nthreads)]
            for th in ths:
                th.start()
            for th in ths:
                th.join()
        finally:
            sys.setswitchinterval(old)
        for k, got in enumerate(outs):
            for j, o in (got or []):
                if o != pristine[j]:
                    V(f'c11:threads:{_what(o, pristine[j])}', f'document {j} parsed in thread {k} of {nthreads} gives {_short(o)}, pristine {_short(pristine[j])}')
        del outs, ths
        check_globals('threads')
    # grammar singletons
    actions1 = grammar_actions()
    grown = {k: (actions0[k], v) for k, v in actions1.items() if actions0.get(k) != v}
    if grown:
        V('c11:grammar-singletons', f'module-level grammar elements changed their parse actions: {grown}')
    # reclamation
    del results, twins
    gc.collect()
    alive = [r for r in refs if r() is not None]
    if alive:
        V('c11:reclaim:weakref', f'{len(alive)} returned databases are still alive after the caller dropped them')
    del alive
    now = pydbml_instances()
    base = _BASELINE or {}
    leaked = {k: v - base.get(k, 0) for k, v in now.items() if v > base.get(k, 0)}
    if leaked:
        V('c11:reclaim:instances', f'instances of pydbml classes survive after all results were dropped: {leaked}')
    return viols, edited


def _what(a, b):
    if a[0] != b[0]:
        return f'{b[0]}->{a[0]}'
    if a[0] == 'db':
        return ['', 'content', 'dbml', 'sql', 'flag'][[i for i in range(1, 5) if a[i] != b[i]][0]]
    return 'exception'


def _short(o):
    return str(o)[:160]


@st.composite
def histories(draw, feats, sizes):
    n = draw(st.integers(2, 10 if sizes else 6))
    docs = []
    kinds = []
    for _ in range(n):
        kind = draw(st.sampled_from(['valid', 'valid', 'valid', 'rule', 'malformed', 'truncated']))
        if kind == 'rule':
            base, s, fk, style = draw(c06.faulty(feats, sizes))[:4]
            from ..surface import write
            text, _ = write(s, style)
            props = s.allow_properties
        elif kind == 'malformed':
            s, text0, f = draw(c07.cases(feats, sizes))[:3]
            from ..surface import render
            text = render(f[1], '\n', True) if f else text0
            props = s.allow_properties
        else:
            s, text, _ = draw(gen.documents(feats, sizes, min_tables=1))
            props = s.allow_properties
            if kind == 'truncated':
                text = text[:draw(st.integers(1, max(1, len(text) - 1)))]
        if draw(st.integers(0, 5)) == 0:
            props = not props
        docs.append((text, props))
        kinds.append(kind)
    if draw(st.integers(0, 2)) == 0:
        j = draw(st.integers(0, len(docs) - 1))
        docs.append(docs[j])
        kinds.append(kinds[j])
    return docs, draw(st.integers(2, 8)), kinds


def evaluate(c, ctx: Ctx = None):
    docs, nthreads, kinds = c
    case = dict(docs=[[t, p] for t, p in docs], threads=nthreads)
    viols, edited = run_history(docs, nthreads, case)
    if ctx is not None:
        outs = [_PRISTINE.get(t, p)[0] for t, p in docs]
        cls = ['threads']
        first_db = next((i for i, o in enumerate(outs) if o == 'db'), None)
        if any(o != 'db' for o in outs) and any(o == 'db' and any(x != 'db' for x in outs[:i]) for i, o in enumerate(outs)):
            cls.append('fail_before_valid')
        if edited:
            cls.append('edit')
        ctx.record(jhash([thash(t) + str(p) for t, p in docs]), True, cls + [f'doc:{k}' for k in kinds],
                   dict(kinds=kinds, threads=nthreads, first_doc=docs[0][0][:200]) if len(ctx.samples) < 2 else None)
    return viols


def replay(case):
    global _PRISTINE, _BASELINE
    gc.collect()
    if _PRISTINE is None:
        _BASELINE = pydbml_instances()
        _PRISTINE = Pristine()
    return run_history([tuple(d) for d in case['docs']], case['threads'], case)[0]


def shard(ctx: Ctx):
    global _PRISTINE, _BASELINE
    quick = ctx.tier == 'quick'
    gc.collect()
    _BASELINE = pydbml_instances()
    _PRISTINE = Pristine()          # forked before this process has parsed anything
    try:
        sizes = gen.Sizes(tables=3, columns=3, indexes=1, enums=1, items=2, refs=3, groups=1, stickies=1, props=2)
        hyp_run(ctx, 'histories', histories(c01.strict_features(), sizes), lambda c: evaluate(c, ctx), 14 if quick else 150)
    finally:
        _PRISTINE.close()
        _PRISTINE = None
