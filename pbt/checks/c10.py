"""C10 — renderings always reflect the current state of the model after edits.

A start database (parsed from an independently written document, or API-built) and a Hypothesis-generated
edit script.  Every edit is applied twice: to the live objects through public attributes / methods, and to
the abstract schema (a pure function).  DIFFERENTIAL oracle: .dbml and .sql of the live database -- and of
each table, enum, reference, index, group, project pairwise -- equal those of a database freshly built from
the edited schema.  The empty script doubles as the parsed-vs-API-built agreement check.
"""
from __future__ import annotations

import copy

from hypothesis import strategies as st

from .. import gen, model
from ..build import build, build_default
from ..core import Ctx, Viol, hyp_run, thash
from ..model import AColumn, AEnumItem, AIndex, ASchema
from ..surface import write
from . import c02
from ..lib import render_everything
from . import sqlcommon as C

RULE = ('start database (parsed | API-built) x edit script of 0-12 steps (rename table / schema / alias / column / '
        'enum / enum schema / enum item, change type plain<->enum, flags, default, notes, reference kind / inline-ness '
        '/ name / actions, add column / index / enum item, remove index, set comments). non-trivial: >= 2 edits, at '
        'least one touching a linked object (renamed column that is an index subject or reference endpoint, renamed '
        'table in a group or reference, renamed enum used as a type); distinct by sha1 of (start document, script)')
ASSUMPTIONS = ['renames never create a clash; notes are assigned as Note objects (the documented setter)',
               'both sides use the same renderer, so renderer defects cancel: only staleness shows']
FLOORS = {'quick': {'linked': 150, 'how:parsed': 100, 'how:built': 100, 'edit:rename_column': 50, 'edit:rename_table': 50,
                    'edit:rename_enum': 30, 'edit:ref_inline': 30},
          'thorough': {'linked': 3000, 'how:parsed': 2000, 'how:built': 2000, 'edit:rename_column': 1000, 'edit:rename_table': 1000,
                       'edit:rename_enum': 600, 'edit:ref_inline': 600}}
EDITS = ['rename_table', 'rename_schema', 'rename_alias', 'rename_column', 'rename_enum', 'rename_enum_schema', 'rename_item',
         'type_plain', 'type_enum', 'flags', 'default', 'table_note', 'column_note', 'ref_kind', 'ref_inline', 'ref_name',
         'ref_actions', 'add_column', 'add_index', 'add_item', 'remove_index', 'comment', 'header_color', 'index_opts',
         'group_edit', 'project_edit', 'dup_index', 'dup_remove_index', 'column_comment', 'ref_comment', 'enum_comment', 'index_comment', 'default_equal']
NEW_NAMES = ['renamed', 'new name', 'Z', 'ünï', 'x{0}', 'order', 'note']


def normalize(s: ASchema) -> ASchema:
    """Same content with every reference (inline ones too) in s.refs, in the order the parser stores them."""
    s2 = copy.deepcopy(s)
    refs = s2.all_refs()
    for t in s2.tables:
        for c in t.columns:
            c.refs = []
    s2.refs = refs
    s2.layout = []
    return s2


def all_refs_api(s):
    return s.refs


def _clash_table(s, ti, schema, name, alias):
    keys = {}
    for i, t in enumerate(s.tables):
        if i == ti:
            continue
        keys[f'{t.schema}.{t.name}'] = 1
        if t.alias:
            keys[t.alias] = 1
    mine = [f'{schema}.{name}'] + ([alias] if alias else [])
    return any(k in keys for k in mine) or len(set(mine)) != len(mine) or \
        any(t.name == alias for t in s.tables) or (alias is not None and '.' in alias)


def apply_edit(s: ASchema, db, e, step):
    """Apply edit e to the abstract schema s (in place) and to the live database. Returns a label or None (skipped)."""
    from pydbml.classes import Column, EnumItem, Expression, Index, Note
    kind, a, b, c = e
    nm = NEW_NAMES[c % len(NEW_NAMES)] + f'_{step}'
    if kind in ('rename_table', 'rename_schema', 'rename_alias', 'table_note', 'add_column', 'add_index', 'remove_index',
                'header_color', 'rename_column', 'type_plain', 'type_enum', 'flags', 'default', 'column_note', 'comment', 'index_opts',
                'dup_index', 'dup_remove_index', 'column_comment', 'index_comment', 'default_equal'):
        if not s.tables:
            return None
        ti = a % len(s.tables)
        t, lt = s.tables[ti], db.tables[ti]
        old_key = t.key
        if kind == 'rename_table' or kind == 'rename_schema':
            new_schema, new_name = (t.schema, nm) if kind == 'rename_table' else (['s1', 'public', 'other'][c % 3], t.name)
            if (new_schema, new_name) == old_key or _clash_table(s, ti, new_schema, new_name, t.alias):
                return None
            if any(x.alias == new_name for x in s.tables):
                return None
            t.schema, t.name = new_schema, new_name
            lt.schema, lt.name = new_schema, new_name
            for r in s.refs:
                if r.t1 == old_key:
                    r.t1 = t.key
                if r.t2 == old_key:
                    r.t2 = t.key
            for g in s.groups:
                g.items = [t.key if k == old_key else k for k in g.items]
            linked = any(old_key in (r.t1, r.t2) or t.key in (r.t1, r.t2) for r in s.refs) or any(t.key in g.items for g in s.groups)
            return kind + ('+linked' if linked else '')
        if kind == 'rename_alias':
            new = None if c % 3 == 0 else nm
            if new == t.alias or _clash_table(s, ti, t.schema, t.name, new):
                return None
            t.alias = new
            lt.alias = new
            return kind
        if kind == 'table_note':
            txt = None if c % 4 == 0 else f'note {step}'
            t.note = txt
            if c % 2:
                lt.note = Note(txt)
            else:
                lt.note.text = txt or ''
            return kind
        if kind == 'header_color':
            t.header_color = [None, '#fff', '#123456'][c % 3]
            lt.header_color = t.header_color
            return kind
        if kind == 'comment':
            t.comment = None if c % 3 == 0 else f'comment {step}'
            lt.comment = t.comment
            return kind
        if kind == 'add_column':
            name = f'added_{step}'
            ac = AColumn(name, ('plain', 'int'), not_null=bool(c % 2), default=('int', step) if c % 3 == 0 else None)
            t.columns.append(ac)
            lt.add_column(Column(name, 'int', not_null=ac.not_null, default=build_default(ac.default)))
            return kind
        if kind == 'add_index':
            k = 1 + c % min(2, len(t.columns))
            cols = [t.columns[(b + i) % len(t.columns)] for i in range(k)]
            names = []
            for x in cols:
                if x.name not in names:
                    names.append(x.name)
            ai = AIndex([('col', n) for n in names], unique=bool(c % 2), name=f'ix{step}' if c % 3 == 0 else None)
            t.indexes.append(ai)
            lt.add_index(Index([lt[n] for n in names], unique=ai.unique, name=ai.name))
            return kind
        if kind == 'remove_index':
            if not t.indexes:
                return None
            i = b % len(t.indexes)
            # delete-by-object selects by equality: it is unambiguous only if no earlier index is equal
            earlier_twin = any(t.indexes[j] == t.indexes[i] for j in range(i))
            del t.indexes[i]
            if c % 2 or earlier_twin:
                lt.delete_index(i)
            else:
                lt.delete_index(lt.indexes[i])
            return kind
        if kind == 'dup_index':
            # an index equal to an existing one (allowed): later removals must hit the right object
            if not t.indexes:
                return None
            i = b % len(t.indexes)
            t.indexes.append(copy.deepcopy(t.indexes[i]))
            src = lt.indexes[i]
            lt.add_index(Index(list(src.subjects), name=src.name, unique=src.unique, type=src.type, pk=src.pk,
                               note=src.note.text or None, comment=src.comment))
            return kind
        if kind == 'dup_remove_index':
            # add an equal duplicate of an index, then remove the LATER of the two (by object or by position):
            # the earlier one must stay, attached
            if not t.indexes:
                return None
            i = len(t.indexes) - 1      # the twins are adjacent: whichever of the two the library removes, the content is the same
            src = lt.indexes[i]
            dup = Index(list(src.subjects), name=src.name, unique=src.unique, type=src.type, pk=src.pk,
                        note=src.note.text or None, comment=src.comment)
            earlier_equal = any(x == dup for x in lt.indexes[:i])
            lt.add_index(dup)
            if c % 2 and not earlier_equal:      # with a third equal index further up, which one goes is not fixed by the statement
                lt.delete_index(dup)
            else:
                lt.delete_index(len(lt.indexes) - 1)
            return kind
        if kind == 'index_comment':
            if not t.indexes:
                return None
            i = b % len(t.indexes)
            t.indexes[i].comment = None if c % 3 == 0 else f'index comment {step}'
            lt.indexes[i].comment = t.indexes[i].comment
            return kind
        if kind == 'index_opts':
            if not t.indexes:
                return None
            i = b % len(t.indexes)
            ai, li = t.indexes[i], lt.indexes[i]
            ai.unique = not ai.unique
            li.unique = ai.unique
            ai.type = [None, 'hash', 'btree'][c % 3]
            li.type = ai.type
            ai.name = None if c % 2 else f'renamed ix {step}'
            li.name = ai.name
            return kind
        ci = b % len(t.columns)
        col, lc = t.columns[ci], lt.columns[ci]
        if kind == 'rename_column':
            if any(x.name == nm for x in t.columns):
                return None
            old = col.name
            col.name = nm
            lc.name = nm
            linked = False
            for ix in t.indexes:
                if ('col', old) in ix.subjects:
                    linked = True
                ix.subjects = [('col', nm) if x == ('col', old) else x for x in ix.subjects]
            for r in s.refs:
                if r.t1 == t.key and old in r.c1:
                    r.c1 = [nm if x == old else x for x in r.c1]
                    linked = True
                if r.t2 == t.key and old in r.c2:
                    r.c2 = [nm if x == old else x for x in r.c2]
                    linked = True
            return kind + ('+linked' if linked else '')
        if kind == 'type_plain':
            ty = ['text', 'varchar(30)', 'int[]'][c % 3]
            col.type = ('plain', ty)
            lc.type = ty
            return kind
        if kind == 'type_enum':
            if not s.enums:
                return None
            ei = c % len(s.enums)
            col.type = ('enum', s.enums[ei].schema, s.enums[ei].name)
            lc.type = db.enums[ei]
            return kind
        if kind == 'flags':
            col.pk, col.unique, col.not_null, col.autoinc = bool(c & 1), bool(c & 2), bool(c & 4), bool(c & 8)
            lc.pk, lc.unique, lc.not_null, lc.autoinc = col.pk, col.unique, col.not_null, col.autoinc
            return kind
        if kind == 'default':
            d = [None, ('int', step), ('str', f'v{step}'), ('expr', 'now()'), ('bool', True), ('null', None), ('float', 1.5)][c % 7]
            col.default = d
            lc.default = build_default(d)
            return kind
        if kind == 'default_equal':
            # two assignments in a row whose values compare equal in Python (True == 1 == 1.0) but are different defaults
            first, second = [(('bool', True), ('int', 1)), (('int', 0), ('bool', False)), (('int', 1), ('float', 1.0)),
                             (('float', 2.0), ('int', 2)), (('bool', False), ('float', 0.0))][c % 5]
            lc.default = build_default(first)
            col.default = second
            lc.default = build_default(second)
            return kind
        if kind == 'column_comment':
            col.comment = None if c % 3 == 0 else f'column comment {step}'
            lc.comment = col.comment
            return kind
        if kind == 'column_note':
            txt = None if c % 4 == 0 else f'col note {step}'
            col.note = txt
            lc.note = Note(txt)
            return kind
    if kind in ('rename_enum', 'rename_enum_schema', 'rename_item', 'add_item'):
        if not s.enums:
            return None
        ei = a % len(s.enums)
        en, le = s.enums[ei], db.enums[ei]
        old = (en.schema, en.name)
        if kind in ('rename_enum', 'rename_enum_schema'):
            new = (en.schema, nm) if kind == 'rename_enum' else (['s1', 'public', 'other'][c % 3], en.name)
            if new == old or any((x.schema, x.name) == new for x in s.enums):
                return None
            en.schema, en.name = new
            le.schema, le.name = new
            linked = False
            for t in s.tables:
                for col in t.columns:
                    if col.type == ('enum',) + old:
                        col.type = ('enum',) + new
                        linked = True
            return 'rename_enum' + ('+linked' if linked else '')
        if kind == 'rename_item':
            ii = b % len(en.items)
            if any(x.name == nm for x in en.items):
                return None
            en.items[ii].name = nm
            le.items[ii].name = nm
            return kind
        if kind == 'add_item':
            name = f'item_{step}'
            en.items.append(AEnumItem(name, note=f'n{step}' if c % 2 else None))
            le.add_item(EnumItem(name, note=f'n{step}' if c % 2 else None) if c % 2 else name)
            return kind
    if kind == 'enum_comment':
        if not s.enums:
            return None
        ei = a % len(s.enums)
        s.enums[ei].comment = None if c % 3 == 0 else f'enum comment {step}'
        db.enums[ei].comment = s.enums[ei].comment
        if s.enums[ei].items:
            ii = b % len(s.enums[ei].items)
            s.enums[ei].items[ii].comment = f'item comment {step}' if c % 2 else None
            db.enums[ei].items[ii].comment = s.enums[ei].items[ii].comment
        return kind
    if kind == 'ref_comment':
        if not s.refs:
            return None
        ri = a % len(s.refs)
        # two references that differ only in their comment are distinct for the library: keep the edited one unique
        s.refs[ri].comment = None if c % 3 == 0 else f'ref comment {step} #{ri}'
        db.refs[ri].comment = s.refs[ri].comment
        return kind
    if kind in ('ref_kind', 'ref_inline', 'ref_name', 'ref_actions'):
        if not s.refs:
            return None
        ri = a % len(s.refs)
        r, lr = s.refs[ri], db.refs[ri]

        def sig(x):
            return (x.kind, x.t1, tuple(x.c1), x.t2, tuple(x.c2), x.name, x.on_update, x.on_delete)
        before = copy.copy(r)
        if kind == 'ref_kind':
            r.kind = ['>', '<', '-', '<>'][c % 4]
        elif kind == 'ref_inline':
            if len(r.c1) > 1:
                return None
            r.inline = not r.inline
        elif kind == 'ref_name':
            r.name = None if c % 3 == 0 else nm
        else:
            r.on_update = [None, 'cascade', 'set null'][c % 3]
            r.on_delete = [None, 'restrict', 'no action'][(c // 3) % 3]
        if any(sig(x) == sig(r) for x in s.refs if x is not r):
            r.kind, r.inline, r.name, r.on_update, r.on_delete = before.kind, before.inline, before.name, before.on_update, before.on_delete
            return None
        # touch only the attribute this edit is about (re-assigning the others would mask stale state)
        if kind == 'ref_kind':
            lr.type = r.kind
        elif kind == 'ref_inline':
            lr.inline = r.inline
        elif kind == 'ref_name':
            lr.name = r.name
        else:
            lr.on_update, lr.on_delete = r.on_update, r.on_delete
        return kind
    if kind == 'group_edit':
        if not s.groups:
            return None
        gi = a % len(s.groups)
        g, lg = s.groups[gi], db.table_groups[gi]
        if c % 2 and not any(x.name == nm for x in s.groups):
            g.name = nm
            lg.name = nm
        g.color = [None, '#abc'][c % 2]
        lg.color = g.color
        return kind
    if kind == 'project_edit':
        if s.project is None:
            return None
        s.project.name = nm
        db.project.name = nm
        s.project.items = list(s.project.items) + [(f'k{step}', f'v{step}')]
        db.project.items[f'k{step}'] = f'v{step}'
        return kind
    return None


def compare(live, fresh, case):
    viols = []

    def cmp(what, a, b, bucket):
        if a != b:
            viols.append(Viol(f'c10:{bucket}', f'{what} of the edited database differs from a fresh build of the same content:\n'
                              + c02._first_diff(b, a), case, size=len(case.get('script', []))))

    def render(obj, w):
        try:
            return getattr(obj, w)
        except Exception as e:  # noqa
            return f'<raised {type(e).__name__}: {e}>'
    for w in ('dbml', 'sql'):
        cmp(f'db.{w}', render(live, w), render(fresh, w), f'db.{w}')
    groups = [('table', live.tables, fresh.tables), ('enum', live.enums, fresh.enums), ('ref', live.refs, fresh.refs),
              ('group', live.table_groups, fresh.table_groups)]
    for name, la, fa in groups:
        if len(la) != len(fa):
            viols.append(Viol(f'c10:count.{name}', f'{len(la)} live {name}s vs {len(fa)} in the fresh build', case))
            continue
        for i, (x, y) in enumerate(zip(la, fa)):
            for w in ('dbml', 'sql'):
                if getattr(type(x), w, None) is not None:
                    cmp(f'{name}[{i}].{w}', render(x, w), render(y, w), f'{name}.{w}')
            if name == 'table':
                for j, (ix, iy) in enumerate(zip(x.indexes, y.indexes)):
                    for w in ('dbml', 'sql'):
                        cmp(f'table[{i}].indexes[{j}].{w}', render(ix, w), render(iy, w), f'index.{w}')
                for j, (cx, cy) in enumerate(zip(x.columns, y.columns)):
                    cmp(f'table[{i}].columns[{j}].sql', render(cx, 'sql'), render(cy, 'sql'), 'column.sql')
                    cmp(f'table[{i}].columns[{j}].dbml', render(cx, 'dbml'), render(cy, 'dbml'), 'column.dbml')
    if live.project is not None and fresh.project is not None:
        cmp('project.dbml', render(live.project, 'dbml'), render(fresh.project, 'dbml'), 'project.dbml')
    return viols


def evaluate(c, ctx: Ctx = None):
    s0, style, script = c
    viols = []
    for how in ('parsed', 'built'):
        s = normalize(s0)
        case = dict(schema=model.to_json(s0), how=how, script=[list(e) for e in script])
        try:
            if how == 'parsed':
                from pydbml import PyDBML
                text, _ = write(s0, style)
                case['text'] = text
                db = PyDBML.parse(text, allow_properties=True) if s0.allow_properties else PyDBML.parse(text)
            else:
                db = build(s)
        except Exception:  # noqa
            if how == 'built':
                raise
            if ctx is not None:
                ctx.extra['source_rejected'] = ctx.extra.get('source_rejected', 0) + 1
            continue
        labels = []
        try:
            # a user renders, edits, renders again: every rendering is evaluated before the first edit and
            # again between edits, so that anything remembered from an earlier rendering would show
            render_everything(db)
            from .sqlcommon import refused_calls
            if not refused_calls(db):       # calls the library refuses leave no trace (if one is accepted: C09's business)
                if ctx is not None:
                    ctx.extra['refused_call_accepted'] = ctx.extra.get('refused_call_accepted', 0) + 1
                continue
            for k, e in enumerate(script):
                lab = apply_edit(s, db, tuple(e), k)
                if lab:
                    labels.append(lab)
                if e[3] % 3 == 0:
                    render_everything(db)
        except Exception as ex:  # noqa
            viols.append(Viol(f'c10:edit-raised:{type(ex).__name__}', f'edit {e} raised {type(ex).__name__}: {ex}', case))
            continue
        fresh = build(s)
        viols += compare(db, fresh, case)
        if ctx is not None:
            linked = any('+linked' in l for l in labels)
            cls = [f'how:{how}'] + [f'edit:{l.split("+")[0]}' for l in labels] + (['linked'] if linked else [])
            ctx.record(thash(how + repr(case['schema']) + repr(script)), len(labels) >= 2 and linked, cls,
                       dict(how=how, edits=labels) if linked and len(ctx.samples) < 3 else None)
    return viols


def replay(case):
    from ..surface import Style
    s0 = model.from_json(case['schema'])
    s = normalize(s0)
    if case['how'] == 'parsed':
        from pydbml import PyDBML
        db = PyDBML.parse(case['text'], allow_properties=True) if s0.allow_properties else PyDBML.parse(case['text'])
    else:
        db = build(s)
    render_everything(db)
    for k, e in enumerate(case['script']):
        apply_edit(s, db, tuple(e), k)
        if e[3] % 3 == 0:
            render_everything(db)
    return compare(db, build(s), case)


def shard(ctx: Ctx):
    quick = ctx.tier == 'quick'
    sizes = gen.Sizes(tables=3, columns=3, indexes=2, enums=2, items=2, refs=5, groups=2, stickies=1, props=1)
    feats = frozenset(C.parse_features() - {'mixed_layout'})
    edit = st.tuples(st.sampled_from(EDITS), st.integers(0, 20), st.integers(0, 20), st.integers(0, 40))

    @st.composite
    def cases(draw):
        s = draw(gen.schemas(feats, sizes, min_tables=1))
        return s, draw(gen.styles()), draw(st.lists(edit, max_size=12))

    hyp_run(ctx, 'scripts', cases(), lambda c: evaluate(c, ctx), 130 if quick else 1300)
