"""Sensitivity protocol: apply one patch to a scratch copy of the repository, confirm the repository's
own tests still pass, run a check against the copy (VERIF_REPO) and report whether it was caught.

  python -m pbt.mutation_run C01 mutants/C01/*.patch [--tier quick] [--no-tests] [--seed N]

The scratch copy lives outside /repo and /verif and is deleted afterwards.  Nothing here is used by
the registered checks; evidence files written during a mutation run are restored afterwards.
"""
import argparse
import os
import shutil
import subprocess
import sys
import tempfile

ROOT = os.path.dirname(os.path.dirname(os.path.abspath(__file__)))
REPO = os.environ.get('VERIF_REPO', '/repo')
PY = '/venv/bin/python'


def run_one(pid, patch, tier, tests, seed):
    scratch = tempfile.mkdtemp(prefix='pbt-mut-', dir='/tmp')
    try:
        for item in ('pydbml', 'test', 'docs', 'README.md', 'test_schema.dbml', 'setup.py'):
            src = os.path.join(REPO, item)
            if os.path.isdir(src):
                shutil.copytree(src, os.path.join(scratch, item), ignore=shutil.ignore_patterns('__pycache__'))
            elif os.path.exists(src):
                shutil.copy(src, scratch)
        r = subprocess.run(['patch', '-p1', '-s', '-i', os.path.abspath(patch)], cwd=scratch, capture_output=True, text=True)
        if r.returncode != 0:
            return 'PATCH-FAILED', r.stdout + r.stderr
        env = dict(os.environ, PYTHONPATH=scratch, PYTHONDONTWRITEBYTECODE='1')
        if tests:
            r = subprocess.run([PY, '-m', 'pytest', '-q', '-x', '-p', 'no:cacheprovider', 'test'], cwd=scratch,
                               capture_output=True, text=True, env=env)
            if r.returncode != 0:
                return 'TESTS-FAIL', ' '.join(l for l in r.stdout.splitlines() if l.startswith('FAILED'))[:300]
        env = dict(os.environ, VERIF_REPO=scratch, VERIF_SEED=str(seed), PYTHONDONTWRITEBYTECODE='1')
        ev = os.path.join(ROOT, 'evidence', f'{pid}.json')
        saved = open(ev).read() if os.path.exists(ev) else None
        try:
            r = subprocess.run([PY, '-m', 'pbt.run', pid, '--tier', tier], cwd=ROOT, capture_output=True, text=True, env=env)
        finally:
            if saved is not None:
                open(ev, 'w').write(saved)
        lines = [l for l in r.stdout.splitlines() if l.startswith('VIOLATION') or l.startswith('  bucket')]
        if r.returncode == 1:
            return 'KILLED', '\n'.join(lines[:6])
        if r.returncode == 0:
            return 'SURVIVED', r.stdout[-300:]
        return f'HARNESS-ERROR({r.returncode})', (r.stdout + r.stderr)[-1500:]
    finally:
        shutil.rmtree(scratch, ignore_errors=True)


def main():
    ap = argparse.ArgumentParser()
    ap.add_argument('pid')
    ap.add_argument('patches', nargs='+')
    ap.add_argument('--tier', default='quick')
    ap.add_argument('--no-tests', action='store_true')
    ap.add_argument('--seed', type=int, default=1)
    ap.add_argument('-v', action='store_true')
    a = ap.parse_args()
    bad = 0
    for p in a.patches:
        status, detail = run_one(a.pid.upper(), p, a.tier, not a.no_tests, a.seed)
        print(f'{status:14s} {a.pid} {os.path.basename(p)}')
        if a.v or status not in ('KILLED',):
            print('    ' + detail.replace('\n', '\n    '))
        bad += status != 'KILLED'
    return 1 if bad else 0


if __name__ == '__main__':
    sys.exit(main())
