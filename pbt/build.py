"""build(schema): an ASchema turned into a pydbml Database through the public classes and
Database.add only (docs/creating_schema.md)."""
from __future__ import annotations

from .model import ASchema


def build_default(d):
    from pydbml.classes import Expression
    if d is None:
        return None
    kind, v = d
    if kind == 'expr':
        return Expression(v)
    if kind == 'null':
        return 'NULL'
    if kind == 'float':
        return float(v)
    return v


class BuildFailed(Exception):
    """The library refused (or crashed on) a model the generators consider expressible, while it was put together
    through the public classes.  Carries the model so that the case can be replayed (pbt.core turns it into a violation)."""

    def __init__(self, schema_json, exc):
        super().__init__(f'{type(exc).__name__}: {exc}')
        self.schema_json, self.exc = schema_json, exc


def build(s: ASchema, **dbkw):
    from . import model
    try:
        return _build(s, **dbkw)
    except Exception as e:  # noqa
        raise BuildFailed(model.to_json(s), e) from e


def _build(s: ASchema, **dbkw):
    from pydbml import Database
    from pydbml.classes import (Column, Enum, EnumItem, Expression, Index, Note, Project, Reference,
                                StickyNote, Table, TableGroup)
    kw = dict(dbkw)
    if s.allow_properties:
        kw.setdefault('allow_properties', True)
    db = Database(**kw)
    enums = {}
    for e in s.enums:
        obj = Enum(e.name, [EnumItem(i.name, note=i.note, comment=i.comment) for i in e.items],
                   schema=e.schema, comment=e.comment)
        enums[(e.schema, e.name)] = obj
    tables = {}
    pending_refs = {}
    for t in s.tables:
        tab = Table(t.name, schema=t.schema, alias=t.alias, note=t.note, header_color=t.header_color,
                    comment=t.comment, **({'properties': dict(t.props)} if t.props else {}))      # no properties: the argument is left out
        for c in t.columns:
            ty = enums[(c.type[1], c.type[2])] if c.type[0] == 'enum' else c.type[1]
            col = Column(c.name, ty, unique=c.unique, not_null=c.not_null, pk=c.pk, autoinc=c.autoinc,
                         default=build_default(c.default), note=c.note, comment=c.comment,
                         **({'properties': dict(c.props)} if c.props else {}))
            tab.add_column(col)
        for ix in t.indexes:
            subjects = [tab[v] if k == 'col' else Expression(v) for k, v in ix.subjects]
            tab.add_index(Index(subjects, name=ix.name, unique=ix.unique, type=ix.type, pk=ix.pk,
                                note=ix.note, comment=ix.comment))
        tables[t.key] = tab

    def mkref(r):
        return Reference(r.kind, [tables[r.t1][c] for c in r.c1], [tables[r.t2][c] for c in r.c2], name=r.name,
                         comment=r.comment, on_update=r.on_update, on_delete=r.on_delete, inline=r.inline)

    # add in the parser's order per kind: enums, tables, groups, sticky notes, project, refs
    for e in s.enums:
        db.add(enums[(e.schema, e.name)])
    for t in s.tables:
        db.add(tables[t.key])
    for g in s.groups:
        db.add(TableGroup(g.name, [tables[k] for k in g.items], comment=g.comment,
                          note=Note(g.note) if g.note is not None else None, color=g.color))
    for n in s.stickies:
        db.add(StickyNote(n.name, n.text))
    if s.project is not None:
        p = s.project
        db.add(Project(p.name, items=dict(p.items), note=p.note, comment=p.comment))
    for r in s.all_refs():
        db.add(mkref(r))
    return db
