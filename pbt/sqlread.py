"""Independent line-structural reader of the SQL DDL emitted by `.sql`.

It reads exactly the statement shapes the properties name; anything else is reported as
`unreadable` (for C03 that is a violation of "nothing else appears", never a crash here).
Identifiers are double-quoted and cannot contain '"', so a qualified name is matched by regex;
string defaults are emitted raw, therefore column lines are read line by line, never tokenised.
"""
from __future__ import annotations

import re
from dataclasses import dataclass, field
from typing import List, Optional, Tuple

QNAME = r'"[^"]*"(?:\."[^"]*")?'
COLS = r'(?:"[^"]*"(?:, )?)+'
FK_RE = re.compile(
    r'^(?:CONSTRAINT "(?P<name>[^"]*)" )?FOREIGN KEY \((?P<cols>' + COLS + r')\) REFERENCES (?P<ref>' + QNAME +
    r') \((?P<refcols>' + COLS + r')\)(?: ON UPDATE (?P<upd>[A-Z]+(?: [A-Z]+)?))?(?: ON DELETE (?P<dele>[A-Z]+(?: [A-Z]+)?))?$')
ALTER_RE = re.compile(r'^ALTER TABLE (?P<table>' + QNAME + r') ADD (?P<fk>.*);$')
INDEX_RE = re.compile(r'^CREATE (?P<unique>UNIQUE )?INDEX (?:"(?P<name>[^"]*)" )?ON (?P<table>' + QNAME +
                      r') (?:USING (?P<type>[A-Z]+) )?\((?P<subjects>.*)\);$', re.S)
COMMENT_ON_RE = re.compile(r'^COMMENT ON (?P<kind>TABLE|COLUMN) (?P<target>' + QNAME + r'(?:\."[^"]*")?) IS \'(?P<text>.*)\';$', re.S)
FLAGS = ['PRIMARY KEY', 'AUTOINCREMENT', 'UNIQUE', 'NOT NULL']


def qsplit(q: str) -> Tuple[str, ...]:
    return tuple(re.findall(r'"([^"]*)"', q))


def collist(s: str) -> List[str]:
    return re.findall(r'"([^"]*)"', s)


@dataclass
class FK:
    name: Optional[str]
    cols: List[str]
    ref: Tuple[str, ...]
    refcols: List[str]
    on_update: Optional[str]
    on_delete: Optional[str]
    holder: Tuple[str, ...] = ()
    placement: str = ''          # 'inline' (clause inside CREATE TABLE) | 'alter'
    comments: List[str] = field(default_factory=list)


@dataclass
class ColLine:
    name: str
    rest: str                    # text after '"name" ' (type, flags, default)
    comments: List[str] = field(default_factory=list)


@dataclass
class TableStmt:
    qname: Tuple[str, ...]
    raw_name: str
    columns: List[ColLine] = field(default_factory=list)
    pks: List[List[str]] = field(default_factory=list)       # PRIMARY KEY (...) clauses, raw subject text
    fks: List[FK] = field(default_factory=list)
    comments: List[str] = field(default_factory=list)
    other: List[str] = field(default_factory=list)            # unreadable body lines
    pos: int = 0


@dataclass
class TypeStmt:
    qname: Tuple[str, ...]
    raw_name: str
    items: List[str] = field(default_factory=list)            # raw item text between the quotes
    comments: List[str] = field(default_factory=list)
    other: List[str] = field(default_factory=list)
    pos: int = 0


@dataclass
class IndexStmt:
    unique: bool
    name: Optional[str]
    table: Tuple[str, ...]
    type: Optional[str]
    subjects: str
    comments: List[str] = field(default_factory=list)
    pos: int = 0


@dataclass
class CommentOn:
    kind: str
    target: Tuple[str, ...]
    text: str
    pos: int = 0


@dataclass
class Parsed:
    types: List[TypeStmt] = field(default_factory=list)
    tables: List[TableStmt] = field(default_factory=list)
    indexes: List[IndexStmt] = field(default_factory=list)
    comment_ons: List[CommentOn] = field(default_factory=list)
    alters: List[FK] = field(default_factory=list)
    unreadable: List[str] = field(default_factory=list)
    order: List[Tuple[str, int]] = field(default_factory=list)   # statement kinds in output order


def parse_fk(text: str) -> Optional[FK]:
    m = FK_RE.match(text)
    if not m:
        return None
    return FK(m.group('name'), collist(m.group('cols')), qsplit(m.group('ref')), collist(m.group('refcols')),
              m.group('upd'), m.group('dele'))


def parse(sql: str) -> Parsed:
    out = Parsed()
    lines = sql.split('\n')
    i, n = 0, len(lines)
    pending: List[str] = []
    pos = 0
    while i < n:
        line = lines[i]
        if line.strip() == '':
            i += 1
            continue
        if line.startswith('-- ') or line == '--':
            pending.append(line[3:])
            i += 1
            continue
        pos += 1
        m = re.match(r'^CREATE TYPE (' + QNAME + r') AS ENUM \($', line)
        if m:
            t = TypeStmt(qsplit(m.group(1)), m.group(1), comments=pending, pos=pos)
            pending = []
            i += 1
            while i < n and lines[i] != ');':
                body = lines[i]
                mi = re.match(r"^  '(.*)',?$", body)
                if body.startswith('  -- '):
                    pass
                elif mi:
                    t.items.append(mi.group(1))
                else:
                    t.other.append(body)
                i += 1
            if i >= n:
                out.unreadable.append('unterminated CREATE TYPE ' + t.raw_name)
            i += 1
            out.types.append(t)
            out.order.append(('type', len(out.types) - 1))
            continue
        m = re.match(r'^CREATE TABLE (' + QNAME + r') \($', line)
        if m:
            t = TableStmt(qsplit(m.group(1)), m.group(1), comments=pending, pos=pos)
            pending = []
            i += 1
            body_comments: List[str] = []
            while i < n and lines[i] != ');':
                body = lines[i]
                # entries are joined by ',\n': the last one has no separator, so a comma there is content
                if body.endswith(',') and i + 1 < n and lines[i + 1] != ');':
                    body = body[:-1]
                if body.startswith('  -- '):
                    body_comments.append(body[5:])
                elif body.startswith('  PRIMARY KEY (') and body.endswith(')'):
                    t.pks.append(body[len('  PRIMARY KEY ('):-1])
                    body_comments = []
                elif body.startswith('  FOREIGN KEY ') or body.startswith('  CONSTRAINT "'):
                    fk = parse_fk(body[2:])
                    if fk is None:
                        t.other.append(lines[i])
                    else:
                        fk.holder, fk.placement, fk.comments = t.qname, 'inline', body_comments
                        t.fks.append(fk)
                    body_comments = []
                elif body.startswith('  "'):
                    end = body.find('"', 3)
                    rest = body[end + 1:]
                    if end < 0 or (rest and not rest.startswith(' ')):
                        t.other.append(lines[i])
                    else:
                        t.columns.append(ColLine(body[3:end], rest[1:], body_comments))
                    body_comments = []
                else:
                    t.other.append(lines[i])
                i += 1
            if i >= n:
                out.unreadable.append('unterminated CREATE TABLE ' + t.raw_name)
            i += 1
            out.tables.append(t)
            out.order.append(('table', len(out.tables) - 1))
            continue
        if line.startswith('CREATE INDEX ') or line.startswith('CREATE UNIQUE INDEX '):
            m = INDEX_RE.match(line)
            if m:
                out.indexes.append(IndexStmt(bool(m.group('unique')), m.group('name'), qsplit(m.group('table')),
                                             m.group('type'), m.group('subjects'), pending, pos))
                out.order.append(('index', len(out.indexes) - 1))
            else:
                out.unreadable.append(line)
            pending = []
            i += 1
            continue
        if line.startswith('COMMENT ON '):
            stmt = line
            mo = re.match(r'^COMMENT ON (?:TABLE|COLUMN) ' + QNAME + r'(?:\."[^"]*")? IS \'', line)
            open_end = mo.end() if mo else len(line)
            while not (stmt.endswith("';") and len(stmt) - 2 >= open_end) and i + 1 < n:
                i += 1
                stmt += '\n' + lines[i]
            m = COMMENT_ON_RE.match(stmt)
            if m:
                out.comment_ons.append(CommentOn(m.group('kind'), qsplit(m.group('target')), m.group('text'), pos))
                out.order.append(('comment_on', len(out.comment_ons) - 1))
            else:
                out.unreadable.append(stmt)
            pending = []
            i += 1
            continue
        m = ALTER_RE.match(line)
        if m:
            fk = parse_fk(m.group('fk'))
            if fk is None:
                out.unreadable.append(line)
            else:
                fk.holder, fk.placement, fk.comments = qsplit(m.group('table')), 'alter', pending
                out.alters.append(fk)
                out.order.append(('alter', len(out.alters) - 1))
            pending = []
            i += 1
            continue
        out.unreadable.append(line)
        pending = []
        i += 1
    return out


def split_column_rest(rest: str, expected_type: Optional[str] = None):
    """(type, flags set, default text | None, problem | None) of a column line's tail."""
    if expected_type is not None and (rest == expected_type or rest.startswith(expected_type + ' ')):
        ty, tail = expected_type, rest[len(expected_type):]
    else:
        cut = len(rest)
        for kw in FLAGS + ['DEFAULT']:
            k = rest.find(' ' + kw)
            if k >= 0:
                cut = min(cut, k)
        ty, tail = rest[:cut], rest[cut:]
    flags = []
    default = None
    problem = None
    while tail:
        if tail.startswith(' DEFAULT '):
            default = tail[len(' DEFAULT '):]
            break
        if tail == ' DEFAULT':
            default = ''
            break
        for kw in FLAGS:
            if tail == ' ' + kw or tail.startswith(' ' + kw + ' '):
                flags.append(kw)
                tail = tail[len(kw) + 1:]
                break
        else:
            problem = f'unexpected text {tail!r}'
            break
    if len(flags) != len(set(flags)):
        problem = f'repeated clause in {rest!r}'
    return ty, set(flags), default, problem
