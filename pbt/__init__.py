"""Property-based testing / fuzzing machinery for PyDBML (see /verif/DESIGN.md)."""
