"""Independent DBML surface writer: ASchema x Style -> lines -> text.

Shares no code with pydbml.renderer.  The document is produced as a list of `Line`s (each a
list of classified tokens) so that C07 (fault injection), C08 (mutation) and C14 (comment
insertion) act on known token / line boundaries instead of guessing where literals begin.

Every spelling emitted here is one the library's docs, test data or grammar show as accepted;
`selfcheck()` verifies that on the tree under test.
"""
from __future__ import annotations

import re
from dataclasses import dataclass, field
from typing import Any, List, Optional, Tuple

from .model import (AColumn, AEnum, AGroup, AIndex, AProject, ARef, ASchema, ASticky, ATable)

RESERVED = {'table', 'ref', 'note', 'enum', 'indexes', 'as', 'pk', 'unique', 'null', 'not', 'primary',
            'key', 'default', 'project', 'tablegroup', 'increment', 'headercolor', 'true', 'false',
            'color', 'type', 'name', 'update', 'delete'}
WORD = re.compile(r'[A-Za-z0-9_]+\Z')


def is_word(name: str) -> bool:
    return bool(WORD.match(name))


def needs_quotes(name: str) -> bool:
    return not is_word(name) or name.lower() in RESERVED


# ---------------------------------------------------------------------------------------------
# style


class Canon:
    """Deterministic chooser: always the first option (the canonical spelling)."""

    def choice(self, seq):
        return seq[0]

    def random(self):
        return 0.999999

    def randint(self, a, b):
        return a

    def shuffle(self, lst):
        pass


class Style:
    def __init__(self, rnd=None, vary: float = 1.0, features=frozenset(), quote=None, pad=None):
        self.r = rnd if rnd is not None else Canon()
        self.vary = vary if rnd is not None else 0.0
        self.quote = quote      # force a string style: "'" | '"' | 't' (triple); None = choose
        self.pad = pad          # force layout padding of triple-quoted notes on/off; None = choose
        # writer-level feature flags (sub-domains an open finding makes inadmissible):
        #   prop_newline: a line break next to a property inside a column settings list
        self.features = frozenset(features)

    def pick(self, options):
        options = list(options)
        if len(options) == 1 or self.vary == 0.0:
            return options[0]
        return self.r.choice(options)

    def chance(self, p: float) -> bool:
        if self.vary == 0.0:
            return False
        return self.r.random() < p * self.vary

    def perm(self, items):
        items = list(items)
        if self.vary and len(items) > 1:
            self.r.shuffle(items)
        return items

    def kw(self, word: str) -> str:
        """Keyword in one of the cases the grammar declares caseless."""
        if self.vary == 0.0:
            return word
        return self.pick([word, word, word.lower(), word.upper(), word.capitalize(), _mixed(word)])

    def ws(self) -> str:
        if self.chance(0.15):
            return self.pick(['  ', '\t', '   ', ' \t'])
        return ' '

    def indent(self, depth: int) -> str:
        if self.vary == 0.0:
            return '  ' * depth
        return self.pick(['  ' * depth, '    ' * depth, '\t' * depth, '', ' ' * (depth * 3), '  ' * depth])


def _mixed(word):
    return ''.join(c.upper() if i % 2 else c.lower() for i, c in enumerate(word))


# ---------------------------------------------------------------------------------------------
# tokens and lines


@dataclass
class Tok:
    text: str
    cls: str          # kw name punct str expr type num color op
    pre: str = ' '    # whitespace before the token (ignored for the first token of a line)


@dataclass
class Line:
    kind: str                 # see KINDS below
    path: Tuple               # element path, e.g. ('table', 0, 'column', 2)
    toks: List[Tok] = field(default_factory=list)
    indent: str = ''
    part: str = 'only'        # only | first | mid | last  (physical part of a logical line)
    tail: str = ''            # trailing whitespace

    def text(self) -> str:
        out = self.indent
        for i, t in enumerate(self.toks):
            out += (t.pre if i else '') + t.text
        return out + self.tail


def render(lines: List[Line], eol: str = '\n', final_eol: bool = True) -> str:
    text = eol.join(l.text() for l in lines)
    return text + (eol if final_eol else '')


# ---------------------------------------------------------------------------------------------
# literals


def dq_name(name: str) -> str:
    assert '"' not in name and '\n' not in name, name
    return f'"{name}"'


def spell_name(name: str, st: Style) -> str:
    if needs_quotes(name):
        return dq_name(name)
    return st.pick([name, dq_name(name)]) if st.vary else name


def esc_single(text: str, q: str) -> str:
    out = []
    for ch in text:
        if ch == '\\':
            out.append('\\\\')
        elif ch == q:
            out.append('\\' + q)
        else:
            out.append(ch)
    return ''.join(out)


def esc_triple(text: str, every: bool) -> str:
    """Escape for a '''-literal: backslashes always; quotes either all of them, or only those in
    a run of >= 3 or in the run that touches the end of the text."""
    out = []
    n = len(text)
    i = 0
    while i < n:
        ch = text[i]
        if ch == '\\':
            out.append('\\\\')
            i += 1
        elif ch == "'":
            j = i
            while j < n and text[j] == "'":
                j += 1
            run = j - i
            if every or run >= 3 or j == n:
                out.append("\\'" * run)
            else:
                out.append("'" * run)
            i = j
        else:
            out.append(ch)
            i += 1
    return ''.join(out)


def spell_string(text: str, st: Style, note: bool = False) -> str:
    """A DBML string literal for `text`.  `note=True` allows layout padding that note
    normalisation removes again (blank lines around, uniform indentation)."""
    if '\n' in text:
        styles = ['t']
    elif st.quote is not None:
        styles = [st.quote]
    else:
        styles = ["'", "'", '"', 't'] if st.vary else ["'"]
    s = st.pick(styles)
    if s == "'":
        return "'" + esc_single(text, "'") + "'"
    if s == '"':
        return '"' + esc_single(text, '"') + '"'
    body = esc_triple(text, every=st.chance(0.5))
    if note and (st.chance(0.5) if st.pad is None else st.pad) and text.strip(' \t\n') != '':
        ind = st.pick(['  ', '    ', '\t', ' '])
        body = '\n'.join((ind + l) if l != '' else l for l in body.split('\n'))
        body = st.pick(['\n', '\n\n', '\n  \n']) + body + st.pick(['\n', '\n  ', '\n\n', '\n' + ind])
    return "'''" + body + "'''"


def spell_default(d, st: Style) -> Tok:
    kind, v = d
    if kind == 'int':
        return Tok(str(v), 'num')
    if kind == 'float':
        return Tok(repr(float(v)), 'num')
    if kind == 'bool':
        return Tok(st.kw('true' if v else 'false'), 'kw')
    if kind == 'null':
        return Tok(st.kw('null'), 'kw')
    if kind == 'str':
        return Tok(spell_string(v, st), 'str')
    if kind == 'expr':
        assert '`' not in v
        return Tok('`' + v + '`', 'expr')
    raise ValueError(kind)


# ---------------------------------------------------------------------------------------------
# the writer


class Writer:
    def __init__(self, schema: ASchema, style: Optional[Style] = None, comments: bool = False):
        self.s = schema
        self.st = style or Style()
        self.lines: List[Line] = []
        self.alias_of = {t.key: t.alias for t in schema.tables if t.alias}

    # -- helpers ----------------------------------------------------------------------------
    def emit(self, kind, path, toks, depth, part='only'):
        st = self.st
        line = Line(kind, tuple(path), toks, st.indent(depth), part,
                    st.pick(['', '', ' ', '  ', '\t']) if st.vary else '')
        self.lines.append(line)
        return line

    def blank(self, path=()):
        st = self.st
        if st.vary:
            for _ in range(st.pick([0, 0, 0, 1, 1, 2])):
                self.lines.append(Line('blank', tuple(path), [], st.pick(['', '', '  ', '\t'])))

    def qual(self, schema: str, name: str, allow_alias: bool = True, combine: bool = False) -> str:
        """Address a table (or enum, with allow_alias=False): alias | bare (public) | schema.name."""
        st = self.st
        opts = []
        if schema == 'public':
            opts.append(spell_name(name, st))
            if st.vary:
                opts.append(spell_name('public', st) + '.' + spell_name(name, st))
        else:
            opts.append(spell_name(schema, st) + '.' + spell_name(name, st))
        if allow_alias and st.vary and self.alias_of.get((schema, name)):
            opts.append(spell_name(self.alias_of[(schema, name)], st))
            opts.append(spell_name(self.alias_of[(schema, name)], st))
        return st.pick(opts)

    def settings(self, kind, path, head: List[Tok], items: List[List[Tok]], depth: int,
                 tail_toks: Optional[List[Tok]] = None):
        """Emit `head [item, item, ...] tail` on one physical line or spread over several.
        Newlines are admissible after '[', before and after ',', and before ']'."""
        st = self.st
        tail_toks = tail_toks or []
        if not items:
            self.emit(kind, path, list(head) + tail_toks, depth)
            return
        tight = st.chance(0.3)
        toks = list(head) + [Tok('[', 'punct', st.ws() if head else '')]
        breaks = []
        for i, it in enumerate(items):
            if i:
                breaks.append(len(toks))
                toks.append(Tok(',', 'punct', st.pick(['', '', '', ' '])))
            breaks.append(len(toks))
            for k, t in enumerate(it):
                pre = t.pre if k else ('' if (tight or i == 0) else ' ')
                if k == 0 and i == 0 and st.chance(0.2):
                    pre = ' '
                toks.append(Tok(t.text, t.cls, pre))
        breaks.append(len(toks))
        toks.append(Tok(']', 'punct', st.pick(['', '', '', ' '])))
        toks += tail_toks
        has_prop = any(it and it[0].cls == 'propkey' for it in items)
        if not st.chance(0.25) or (has_prop and 'prop_newline' not in st.features):
            self.emit(kind, path, toks, depth)
            return
        chosen = [b for b in breaks if st.chance(0.5)] or [st.pick(breaks)]
        chosen = sorted(set(chosen))
        parts, prev = [], 0
        for b in chosen + [len(toks)]:
            parts.append(toks[prev:b])
            prev = b
        for n, part in enumerate(parts):
            which = 'first' if n == 0 else ('last' if n == len(parts) - 1 else 'mid')
            self.emit(kind if n == 0 else 'settings_cont', path, part, depth if n == 0 else depth + 1, which)

    def enote(self, note):
        """an absent note may be spelled as a declared empty one (same content: Note('') either way)"""
        if note is None and self.st.chance(0.1):
            return ''
        return note

    def note_setting(self, text: str) -> List[Tok]:
        st = self.st
        return [Tok(st.kw('note') + ':', 'kw'), Tok(spell_string(text, st, note=True), 'str')]

    def note_lines(self, text: str, path, depth: int):
        """`Note: '...'` or `Note { '...' }` inside a body."""
        st = self.st
        form = st.pick(['colon', 'block', 'block1']) if st.vary else 'colon'
        lit = Tok(spell_string(text, st, note=True), 'str')
        if form == 'colon':
            self.emit('note_colon', path, [Tok(st.kw('Note') + ':', 'kw'), lit], depth)
        elif form == 'block1':
            self.emit('note_block1', path, [Tok(st.kw('Note'), 'kw'), Tok('{', 'punct'), lit, Tok('}', 'punct')], depth)
        else:
            self.emit('note_open', path, [Tok(st.kw('Note'), 'kw'), Tok('{', 'punct')], depth)
            self.emit('note_text', path, [lit], depth + 1)
            self.emit('note_close', path, [Tok('}', 'punct')], depth)

    # -- elements ---------------------------------------------------------------------------
    def project(self, p: AProject):
        st = self.st
        path = ('project', 0)
        self.emit('project_open', path, [Tok(st.kw('Project'), 'kw'), Tok(spell_name(p.name, st), 'name'),
                                          Tok('{', 'punct')], 0)
        body = [('item', kv) for kv in p.items]
        pnote = self.enote(p.note)
        if pnote is not None:
            body.insert(st.pick(range(len(body) + 1)) if st.vary else len(body), ('note', pnote))
        for i, (k, v) in enumerate(body):
            self.blank(path)
            if k == 'note':
                self.note_lines(v, path + ('note',), 1)
            else:
                key, val = v
                self.emit('project_field', path + ('item', i),
                          [Tok(spell_name(key, st), 'name'), Tok(':', 'punct', st.pick(['', '', ' '])),
                           Tok(spell_string(val, st), 'str')], 1)
        self.blank(path)
        self.emit('project_close', path, [Tok('}', 'punct')], 0)

    def enum(self, i: int, e: AEnum):
        st = self.st
        path = ('enum', i)
        name = self.qual(e.schema, e.name, allow_alias=False)
        self.emit('enum_open', path, [Tok(st.kw('Enum'), 'kw'), Tok(name, 'name'), Tok('{', 'punct')], 0)
        for j, it in enumerate(e.items):
            self.blank(path)
            head = [Tok(spell_name(it.name, st), 'name')]
            inote = self.enote(it.note)
            items = [self.note_setting(inote)] if inote is not None else []
            self.settings('enum_item', path + ('item', j), head, items, 1)
        self.blank(path)
        self.emit('enum_close', path, [Tok('}', 'punct')], 0)

    def inline_ref(self, r: ARef) -> List[Tok]:
        assert len(r.c2) == 1 and r.inline
        st = self.st
        target = self.qual(*r.t2) + '.' + spell_name(r.c2[0], st)
        return [Tok('ref:', 'kw'), Tok(r.kind, 'op'), Tok(target, 'name')]

    def column(self, path, c: AColumn, depth: int):
        st = self.st
        head = [Tok(spell_name(c.name, st), 'name')]
        if c.type[0] == 'enum':
            head.append(Tok(self.qual(c.type[1], c.type[2], allow_alias=False), 'type'))
        else:
            head.append(Tok(spell_type(c.type[1], st), 'type'))
        pk_legacy = c.pk and st.chance(0.2)
        uq_legacy = c.unique and st.chance(0.2)
        legacy = []
        if pk_legacy:
            legacy.append(Tok(st.kw('pk'), 'kw'))
        if uq_legacy:
            legacy.append(Tok(st.kw('unique'), 'kw'))
        head += st.perm(legacy)
        items: List[List[Tok]] = []
        if c.pk and (not pk_legacy or st.chance(0.3)):
            items.append([Tok(st.pick([st.kw('pk'), st.kw('primary key')]) if st.vary else 'pk', 'kw')])
        if c.unique and (not uq_legacy or st.chance(0.3)):
            items.append([Tok(st.kw('unique'), 'kw')])
        if c.not_null:
            items.append([Tok(st.kw('not null'), 'kw')])
        elif st.chance(0.1):
            items.append([Tok(st.kw('null'), 'kw')])
        if c.autoinc:
            items.append([Tok(st.kw('increment'), 'kw')])
        if c.default is not None:
            items.append([Tok(st.kw('default') + ':', 'kw'), spell_default(c.default, st)])
        cnote = self.enote(c.note)
        if cnote is not None:
            items.append(self.note_setting(cnote))
        # inline refs keep their relative order (it is content: db.refs order)
        other = st.perm(items)
        refs = [self.inline_ref(r) for r in c.refs]
        props = [[Tok(spell_name(k, st), 'propkey'), Tok(':', 'punct', ''), Tok(spell_string(v, st), 'str')]
                 for k, v in c.props]
        merged = _interleave(st, other, refs)
        merged = _interleave(st, merged, props)
        self.settings('column', path, head, merged, depth)

    def index(self, path, ix: AIndex, depth: int):
        st = self.st
        subs = []
        for kind, v in ix.subjects:
            subs.append(spell_name(v, st) if kind == 'col' else '`' + v + '`')
        if len(subs) == 1 and not st.chance(0.2):
            head = [Tok(subs[0], 'name' if ix.subjects[0][0] == 'col' else 'expr')]
        else:
            sep = st.pick([', ', ',', ' , ']) if st.vary else ', '
            head = [Tok('(' + sep.join(subs) + ')', 'name')]
        items: List[List[Tok]] = []
        if ix.unique:
            items.append([Tok(st.kw('unique'), 'kw')])
        if ix.pk:
            items.append([Tok(st.kw('pk'), 'kw')])
        if ix.type is not None:
            items.append([Tok(st.kw('type') + ':', 'kw'), Tok(st.kw(ix.type), 'kw')])
        if ix.name is not None:
            items.append([Tok(st.kw('name') + ':', 'kw'), Tok(spell_string(ix.name, st), 'str')])
        xnote = self.enote(ix.note)
        if xnote is not None:
            items.append(self.note_setting(xnote))
        self.settings('index', path, head, st.perm(items), depth)

    def table(self, i: int, t: ATable):
        st = self.st
        path = ('table', i)
        head = [Tok(st.kw('Table'), 'kw'), Tok(self.qual(t.schema, t.name, allow_alias=False), 'name')]
        if t.alias:
            head += [Tok('as', 'kw'), Tok(spell_name(t.alias, st), 'name')]
        items: List[List[Tok]] = []
        tnote = self.enote(t.note)
        note_in_header = tnote is not None and st.chance(0.35)
        if t.header_color:
            items.append([Tok(st.kw('headercolor') + ':', 'kw'), Tok(t.header_color, 'color')])
        if note_in_header:
            items.append(self.note_setting(tnote))
        self.settings('table_open', path, head, st.perm(items), 0, tail_toks=[Tok('{', 'punct')])
        # body: columns keep their order; note / index block / properties anywhere between them
        body: List[Tuple[str, Any]] = [('column', j) for j in range(len(t.columns))]
        extras = []
        if tnote is not None and not note_in_header:
            extras.append(('note', None))
        if t.indexes:
            extras.append(('indexes', None))
        if not st.vary:
            body += extras
        else:
            for x in extras:
                body.insert(st.pick(range(len(body) + 1)), x)
        # table properties: relative order is content
        pos = sorted(st.pick(range(len(body) + 1)) for _ in t.props) if st.vary else [len(body)] * len(t.props)
        for off, (p, kv) in enumerate(zip(pos, t.props)):
            body.insert(p + off, ('prop', kv))
        for k, v in body:
            self.blank(path)
            if k == 'column':
                self.column(path + ('column', v), t.columns[v], 1)
            elif k == 'note':
                self.note_lines(tnote, path + ('note',), 1)
            elif k == 'prop':
                self.emit('table_prop', path + ('prop', v[0]),
                          [Tok(spell_name(v[0], st), 'name'), Tok(':', 'punct', ''),
                           Tok(spell_string(v[1], st), 'str')], 1)
            else:
                self.emit('indexes_open', path + ('indexes',), [Tok(st.kw('indexes'), 'kw'), Tok('{', 'punct')], 1)
                for j, ix in enumerate(t.indexes):
                    self.blank(path)
                    self.index(path + ('index', j), ix, 2)
                self.blank(path)
                self.emit('indexes_close', path + ('indexes',), [Tok('}', 'punct')], 1)
        self.blank(path)
        self.emit('table_close', path, [Tok('}', 'punct')], 0)

    def endpoint(self, tkey, cols) -> str:
        st = self.st
        if len(cols) == 1 and not st.chance(0.1):
            c = spell_name(cols[0], st)
        else:
            sep = st.pick([', ', ',', ' , ', ' ,']) if st.vary else ', '
            c = '(' + st.pick(['', '', ' ']) + sep.join(spell_name(x, st) for x in cols) + st.pick(['', '', ' ']) + ')'
        return self.qual(*tkey) + '.' + c

    def ref(self, i: int, r: ARef):
        st = self.st
        assert not r.inline
        path = ('ref', i)
        body = [Tok(self.endpoint(r.t1, r.c1), 'name'), Tok(r.kind, 'op'), Tok(self.endpoint(r.t2, r.c2), 'name')]
        items: List[List[Tok]] = []
        if r.on_update is not None:
            items.append([Tok(st.kw('update') + ':', 'kw'), Tok(st.kw(r.on_update), 'kw')])
        if r.on_delete is not None:
            items.append([Tok(st.kw('delete') + ':', 'kw'), Tok(st.kw(r.on_delete), 'kw')])
        items = st.perm(items)
        head = [Tok(st.kw('Ref'), 'kw')]
        if r.name is not None:
            head.append(Tok(spell_name(r.name, st), 'name'))
        if st.pick(['short', 'long']) == 'short' or not st.vary:
            head.append(Tok(':', 'punct', st.pick(['', '', ' '])))
            self.settings('ref_short', path, head + body, items, 0)
        else:
            self.emit('ref_open', path, head + [Tok('{', 'punct')], 0)
            self.blank(path)
            self.settings('ref_body', path, body, items, 1)
            self.blank(path)
            self.emit('ref_close', path, [Tok('}', 'punct')], 0)

    def group(self, i: int, g: AGroup):
        st = self.st
        path = ('group', i)
        head = [Tok(st.kw('TableGroup'), 'kw'), Tok(spell_name(g.name, st), 'name')]
        items: List[List[Tok]] = []
        gnote = self.enote(g.note)
        note_in_header = gnote is not None and st.chance(0.4)
        if g.color:
            items.append([Tok(st.kw('color') + ':', 'kw'), Tok(g.color, 'color')])
        if note_in_header:
            items.append(self.note_setting(gnote))
        self.settings('group_open', path, head, st.perm(items), 0, tail_toks=[Tok('{', 'punct')])
        body: List[Tuple[str, Any]] = [('item', k) for k in g.items]
        if gnote is not None and not note_in_header:
            body.insert(st.pick(range(len(body) + 1)) if st.vary else len(body), ('note', None))
        for j, (k, v) in enumerate(body):
            self.blank(path)
            if k == 'note':
                self.note_lines(gnote, path + ('note',), 1)
            else:
                self.emit('group_item', path + ('item', j), [Tok(self.qual(*v), 'name')], 1)
        self.blank(path)
        self.emit('group_close', path, [Tok('}', 'punct')], 0)

    def sticky(self, i: int, n: ASticky):
        st = self.st
        path = ('sticky', i)
        self.emit('sticky_open', path, [Tok(st.kw('Note'), 'kw'), Tok(spell_name(n.name, st), 'name'), Tok('{', 'punct')], 0)
        self.emit('sticky_text', path, [Tok(spell_string(n.text, st, note=True), 'str')], 1)
        self.emit('sticky_close', path, [Tok('}', 'punct')], 0)

    def write(self) -> List[Line]:
        s = self.s
        for kind, i in s.get_layout():
            self.blank()
            if kind == 'project':
                self.project(s.project)
            elif kind == 'enum':
                self.enum(i, s.enums[i])
            elif kind == 'table':
                self.table(i, s.tables[i])
            elif kind == 'ref':
                self.ref(i, s.refs[i])
            elif kind == 'group':
                self.group(i, s.groups[i])
            elif kind == 'sticky':
                self.sticky(i, s.stickies[i])
        self.blank()
        return self.lines


def _interleave(st: Style, a: list, b: list) -> list:
    """Merge keeping the relative order inside each list."""
    if not b:
        return list(a)
    if not st.vary:
        return list(a) + list(b)
    a, b = list(a), list(b)
    out = []
    while a or b:
        if a and (not b or st.chance(0.5)):
            out.append(a.pop(0))
        else:
            out.append(b.pop(0))
    return out


TYPE_RE = re.compile(r'(?P<base>[^(\[]*?)(?P<rest>(\(.*\))?|\[\])\Z', re.S)


def spell_type(text: str, st: Style) -> str:
    """Plain column type.  `word`, `word(args)`, `word[]`, `word.word`; a base that is not a plain
    word (spaces...) must be double-quoted."""
    m = re.match(r'^(.*?)(\(.*\)|\[\])?$', text, re.S)
    base, rest = m.group(1), m.group(2) or ''
    if '.' in base and all(is_word(p) for p in base.split('.')):
        parts = base.split('.')
        return '.'.join(spell_name(p, st) if st.vary else p for p in parts) + rest
    if is_word(base):
        # a bare word is always fine for a type (reserved words included: the type position is unambiguous)
        return (st.pick([base, base, dq_name(base)]) if st.vary else base) + rest
    return dq_name(base) + rest


def write(schema: ASchema, style: Optional[Style] = None) -> Tuple[str, List[Line]]:
    style = style or Style()
    w = Writer(schema, style)
    lines = w.write()
    eol = style.pick(['\n', '\n', '\n', '\r\n']) if style.vary else '\n'
    final = not style.chance(0.15)
    return render(lines, eol, final), lines
