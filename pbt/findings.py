"""Known findings registry (read-only at run time): /verif/known_findings.json.

entry = {id, properties[], status: open|fixed, commit?, site, feature?, kind: destructive|local,
         repro: {property id -> replayable case of that check}, what}

* open + destructive: generators switch the `feature` off in the strict campaign (the trigger is
  absent by construction, the oracle has no tolerance); a zone arm forces the trigger in.
* open + local: the feature stays on; a discrepancy is attributed to the finding only by the narrow
  `explains_*` predicate of the check that knows the finding.
* fixed: suppresses nothing; its reproducers are replayed as regression inputs.
"""
from __future__ import annotations

import glob
import json
import os
from typing import Any, Dict, List

from .core import ROOT

_cache = None


def load() -> List[Dict[str, Any]]:
    global _cache
    if _cache is None:
        with open(os.path.join(ROOT, 'known_findings.json')) as fh:
            _cache = json.load(fh)['findings']
    return _cache


def by_id(fid: str) -> Dict[str, Any]:
    for f in load():
        if f['id'] == fid:
            return f
    raise KeyError(fid)


def is_open(fid: str) -> bool:
    try:
        return by_id(fid)['status'] == 'open'
    except KeyError:
        return False


def open_for(pid: str) -> List[Dict[str, Any]]:
    """Open findings of a property, each with `repro` narrowed to that property's case (or None)."""
    out = []
    for f in load():
        if f['status'] == 'open' and pid in f['properties']:
            g = dict(f)
            g['repro'] = (f.get('repro') or {}).get(pid)
            out.append(g)
    return out


def off_features() -> set:
    """Features whose trigger the strict campaigns leave out: those of open destructive findings."""
    return {f['feature'] for f in load()
            if f['status'] == 'open' and f.get('kind') == 'destructive' and f.get('feature')}


def regression_cases(pid: str) -> List[Dict[str, Any]]:
    cases = []
    for f in load():
        if f['status'] == 'fixed':
            c = (f.get('repro') or {}).get(pid)
            if c is not None:
                cases.append(c)
    for path in sorted(glob.glob(os.path.join(ROOT, 'replays', '*.json'))):
        with open(path) as fh:
            doc = json.load(fh)
        if doc.get('property') == pid:
            cases.append(doc['case'])
    return cases
