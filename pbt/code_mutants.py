"""Systematic single-site mutation of the non-grammar code (renderers, model classes, container, parser driver,
tools) as an unbiased sensitivity measurement for the checks -- the counterpart of grammar_mutants.py.

  python -m pbt.code_mutants generate             # enumerate sites, keep the mutants the 470 tests do not kill
  python -m pbt.code_mutants run [--limit N] [--sites REGEX]

Operators (AST-located, applied textually, one site per mutant): comparison operator swapped (== / !=, is / is not,
in / not in, < / <=, > / >=), `and` <-> `or`, an `if` / `elif` / ternary / comprehension condition negated,
`not x` -> `x`, True <-> False, small integer constants +1, an expression statement that is a call (append, update,
...) or an augmented assignment replaced by `pass`, `return <expr>` of a conditional early return dropped.
Each surviving mutant is run against the checks mapped to its file (first kill wins); results in
mutants/code/results.json.  Scratch copies live under /tmp and are removed.  Nothing here is used by the
registered checks.
"""
import argparse
import ast
import concurrent.futures as cf
import glob
import json
import os
import re
import shutil
import subprocess
import tempfile

from .grammar_mutants import REPO, PY, ROOT, copy_repo, make_patch as _unused, try_suite  # noqa
import difflib

OUT = os.path.join(ROOT, 'mutants', 'code')


def files():
    out = sorted(glob.glob(os.path.join(REPO, 'pydbml', 'renderer', '**', '*.py'), recursive=True))
    out += sorted(glob.glob(os.path.join(REPO, 'pydbml', '_classes', '*.py')))
    out += [os.path.join(REPO, 'pydbml', x) for x in ('database.py', 'tools.py', 'parser/parser.py', 'parser/blueprints.py')]
    return [f for f in out if not f.endswith('__init__.py')]


CHECKS = [
    (r'renderer/sql/', ['C03', 'C04', 'C18', 'C10', 'C14', 'C13', 'C17', 'C16', 'C08']),
    (r'renderer/dbml/', ['C02', 'C10', 'C13', 'C14', 'C15', 'C17', 'C16', 'C08']),
    (r'renderer/base', ['C16', 'C17', 'C02', 'C03']),
    (r'database\.py', ['C09', 'C16', 'C10', 'C05', 'C06']),
    (r'_classes/', ['C09', 'C10', 'C17', 'C05', 'C02', 'C04', 'C03', 'C16', 'C06', 'C15', 'C13']),
    (r'tools\.py', ['C13', 'C02', 'C14', 'C12', 'C07', 'C01']),
    (r'parser/parser\.py', ['C01', 'C12', 'C11', 'C05', 'C06', 'C15', 'C07', 'C16']),
    (r'parser/blueprints\.py', ['C01', 'C05', 'C06', 'C13', 'C14', 'C15']),
]

SWAP = {ast.Eq: '!=', ast.NotEq: '==', ast.Is: 'is not', ast.IsNot: 'is', ast.In: 'not in', ast.NotIn: 'in',
        ast.Lt: '<=', ast.LtE: '<', ast.Gt: '>=', ast.GtE: '>'}


class Src:
    def __init__(self, text):
        self.text = text
        self.lines = text.split('\n')
        self.off = [0]
        for l in self.lines:
            self.off.append(self.off[-1] + len(l) + 1)

    def pos(self, lineno, col):
        # ast columns are utf8 byte offsets; the library's sources are ASCII apart from a few string literals
        line = self.lines[lineno - 1]
        return self.off[lineno - 1] + len(line.encode('utf8')[:col].decode('utf8', 'ignore'))

    def span(self, node):
        return self.pos(node.lineno, node.col_offset), self.pos(node.end_lineno, node.end_col_offset)

    def seg(self, node):
        a, b = self.span(node)
        return self.text[a:b]


def sites(path):
    rel = os.path.relpath(path, REPO)
    text = open(path).read()
    src = Src(text)
    tree = ast.parse(text)
    out = []

    def emit(desc, a, b, new):
        out.append((f'{rel}:{text.count(chr(10), 0, a) + 1} {desc}', text[:a] + new + text[b:]))

    def negate(node, what):
        a, b = src.span(node)
        emit(f'{what} `{src.seg(node)[:40]}` negated', a, b, f'not ({text[a:b]})')

    docstrings = set()
    for node in ast.walk(tree):
        if isinstance(node, (ast.FunctionDef, ast.ClassDef, ast.Module)) and node.body and isinstance(node.body[0], ast.Expr) \
                and isinstance(getattr(node.body[0], 'value', None), ast.Constant) and isinstance(node.body[0].value.value, str):
            docstrings.add(id(node.body[0]))
    for node in ast.walk(tree):
        if isinstance(node, ast.Compare):
            left = node.left
            for op, comp in zip(node.ops, node.comparators):
                if type(op) in SWAP:
                    a = src.span(left)[1]
                    b = src.span(comp)[0]
                    between = text[a:b]
                    m = re.search(r'(==|!=|<=|>=|<|>|\bis\s+not\b|\bis\b|\bnot\s+in\b|\bin\b)', between)
                    if m:
                        emit(f'`{m.group(1)}` -> `{SWAP[type(op)]}` in `{src.seg(node)[:40]}`', a + m.start(1), a + m.end(1), SWAP[type(op)])
                left = comp
        elif isinstance(node, ast.BoolOp):
            for x, y in zip(node.values, node.values[1:]):
                a = src.span(x)[1]
                b = src.span(y)[0]
                m = re.search(r'\b(and|or)\b', text[a:b])
                if m:
                    new = 'or' if m.group(1) == 'and' else 'and'
                    emit(f'`{m.group(1)}` -> `{new}` in `{src.seg(node)[:40]}`', a + m.start(1), a + m.end(1), new)
        elif isinstance(node, (ast.If, ast.IfExp, ast.While)):
            negate(node.test, 'condition')
        elif isinstance(node, ast.comprehension):
            for c in node.ifs:
                negate(c, 'filter')
        elif isinstance(node, ast.UnaryOp) and isinstance(node.op, ast.Not):
            a, b = src.span(node)
            emit(f'`not` removed from `{src.seg(node)[:40]}`', a, b, '(' + src.seg(node.operand) + ')')
        elif isinstance(node, ast.Constant) and isinstance(node.value, bool):
            a, b = src.span(node)
            emit(f'{node.value} -> {not node.value}', a, b, str(not node.value))
        elif isinstance(node, ast.Constant) and type(node.value) is int and 0 <= node.value <= 3:
            a, b = src.span(node)
            emit(f'{node.value} -> {node.value + 1}', a, b, str(node.value + 1))
        elif isinstance(node, ast.Expr) and isinstance(node.value, ast.Call) and id(node) not in docstrings:
            a, b = src.span(node)
            emit(f'statement `{src.seg(node)[:50]}` removed', a, b, 'pass')
        elif isinstance(node, ast.AugAssign):
            a, b = src.span(node)
            emit(f'statement `{src.seg(node)[:50]}` removed', a, b, 'pass')
    for node in ast.walk(tree):
        if isinstance(node, ast.If) and len(node.body) == 1 and isinstance(node.body[0], ast.Return) and not node.orelse:
            a, b = src.span(node.body[0])
            emit(f'early `{src.seg(node.body[0])[:40]}` removed', a, b, 'pass')
    return out


def diff(path, new_text):
    rel = os.path.relpath(path, REPO)
    a = open(path).read().splitlines(keepends=True)
    b = new_text.splitlines(keepends=True)
    return ''.join(difflib.unified_diff(a, b, 'a/' + rel, 'b/' + rel))


def generate():
    os.makedirs(OUT, exist_ok=True)
    for f in glob.glob(os.path.join(OUT, '*.patch')):
        os.remove(f)
    jobs = []
    seen = set()
    for path in files():
        for desc, new in sites(path):
            try:
                ast.parse(new)
            except SyntaxError:
                continue
            patch = diff(path, new)
            if not patch or patch in seen:
                continue
            seen.add(patch)
            jobs.append((len(jobs), desc, patch))
    print(len(jobs), 'mutants generated')
    stats = {}
    survivors = []
    with cf.ProcessPoolExecutor(16) as ex:
        for idx, desc, status in ex.map(try_suite, jobs, chunksize=4):
            stats[status] = stats.get(status, 0) + 1
            if status == 'survived':
                survivors.append((idx, desc))
    for idx, desc in survivors:
        with open(os.path.join(OUT, f'{idx:04d}.patch'), 'w') as fh:
            fh.write(jobs[idx][2])
    json.dump(dict(generated=len(jobs), suite=stats, survivors=[dict(id=f'{i:04d}', site=d) for i, d in survivors]),
              open(os.path.join(OUT, 'survivors.json'), 'w'), indent=1)
    print(stats)


def checks_for(site):
    for pat, cs in CHECKS:
        if re.search(pat, site):
            return cs
    return ['C01', 'C02', 'C03']


def run(limit, tier, site_filter, only):
    surv = json.load(open(os.path.join(OUT, 'survivors.json')))['survivors']
    if site_filter:
        surv = [s for s in surv if re.search(site_filter, s['site'])]
    res_path = os.path.join(OUT, 'results.json')
    results = json.load(open(res_path)) if os.path.exists(res_path) else {}
    todo = [s for s in surv if s['id'] not in results or (only and not results[s['id']].get('killed_by'))][:limit]
    for s in todo:
        patch = os.path.join(OUT, s['id'] + '.patch')
        d = tempfile.mkdtemp(prefix='pbt-cm-', dir='/tmp')
        try:
            copy_repo(d)
            subprocess.run(['patch', '-p1', '-s', '-i', patch], cwd=d, check=True)
            killed_by = None
            detail = dict((results.get(s['id']) or {}).get('detail', {}))
            for pid in (only or checks_for(s['site'])):
                if pid in detail:
                    continue
                ev = os.path.join(ROOT, 'evidence', f'{pid}.json')
                saved = open(ev).read() if os.path.exists(ev) else None
                try:
                    r = subprocess.run([PY, '-m', 'pbt.run', pid, '--tier', tier], cwd=ROOT, capture_output=True, text=True,
                                       env=dict(os.environ, VERIF_REPO=d, PYTHONDONTWRITEBYTECODE='1'))
                finally:
                    if saved is not None:
                        open(ev, 'w').write(saved)
                detail[pid] = r.returncode
                if r.returncode == 1:
                    killed_by = pid
                    detail['bucket'] = next((l.strip() for l in r.stdout.splitlines() if l.strip().startswith('bucket:')), '')
                    break
            results[s['id']] = dict(site=s['site'], killed_by=killed_by, detail=detail)
            print(s['id'], s['site'], '->', killed_by or 'SURVIVED', flush=True)
            json.dump(results, open(res_path, 'w'), indent=1)
        finally:
            shutil.rmtree(d, ignore_errors=True)
    k = sum(1 for v in results.values() if v['killed_by'])
    print(f'{k} of {len(results)} suite-surviving mutants killed by the checks')


if __name__ == '__main__':
    ap = argparse.ArgumentParser()
    ap.add_argument('cmd', choices=['generate', 'run', 'count'])
    ap.add_argument('--limit', type=int, default=10 ** 6)
    ap.add_argument('--tier', default='quick')
    ap.add_argument('--sites', default=None)
    ap.add_argument('--checks', default=None, help='override the per-file mapping')
    a = ap.parse_args()
    if a.cmd == 'generate':
        generate()
    elif a.cmd == 'count':
        n = 0
        for p in files():
            k = len(sites(p))
            n += k
            print(k, os.path.relpath(p, REPO))
        print(n)
    else:
        run(a.limit, a.tier, a.sites, a.checks.split(',') if a.checks else None)
