"""Developer helper: write a one-hunk mutant patch.  python -m pbt.mkmut C01 name path/in/repo 'old' 'new'"""
import difflib
import os
import sys

ROOT = os.path.dirname(os.path.dirname(os.path.abspath(__file__)))


def make(pid, name, relpath, old, new, repo='/repo', count=1):
    src = open(os.path.join(repo, relpath)).read()
    assert src.count(old) >= 1, f'{name}: pattern not found in {relpath}'
    dst = src.replace(old, new, count)
    diff = ''.join(difflib.unified_diff(src.splitlines(True), dst.splitlines(True), 'a/' + relpath, 'b/' + relpath))
    d = os.path.join(ROOT, 'mutants', pid)
    os.makedirs(d, exist_ok=True)
    with open(os.path.join(d, name + '.patch'), 'w') as fh:
        fh.write(diff)


if __name__ == '__main__':
    make(*sys.argv[1:6])
