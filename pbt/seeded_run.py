"""Evaluate independently seeded breaking changes (seeded/<id>/patch.diff + demo.py + meta.json).

  python -m pbt.seeded_run seeded/S01-C06 [--checks C06,C05 | --all] [--tier quick] [--confirm-only]

For each change: scratch copy of /repo (outside /repo and /verif, removed afterwards) -> apply the patch ->
the repository's own tests must pass -> demo.py must fail with the change and pass without it -> run the
checks against the copy (VERIF_REPO) and record which ones report a VIOLATION.  Results are written to
seeded/<id>/result.json.  Nothing here is used by the registered checks.
"""
import argparse
import json
import os
import shutil
import subprocess
import sys
import tempfile
import time

ROOT = os.path.dirname(os.path.dirname(os.path.abspath(__file__)))
REPO = '/repo'
PY = '/venv/bin/python'
ALL = [f'C{i:02d}' for i in range(1, 19)]


def copy_repo(dst):
    for item in ('pydbml', 'test', 'docs', 'README.md', 'test_schema.dbml', 'setup.py'):
        src = os.path.join(REPO, item)
        if os.path.isdir(src):
            shutil.copytree(src, os.path.join(dst, item), ignore=shutil.ignore_patterns('__pycache__'))
        elif os.path.exists(src):
            shutil.copy(src, dst)


def run(cmd, cwd, env=None, timeout=3600):
    e = dict(os.environ, PYTHONDONTWRITEBYTECODE='1')
    e.update(env or {})
    return subprocess.run(cmd, cwd=cwd, capture_output=True, text=True, env=e, timeout=timeout)


def evaluate(sdir, checks, tier, confirm_only, seed):
    sdir = os.path.abspath(sdir)
    meta = json.load(open(os.path.join(sdir, 'meta.json')))
    res = dict(id=os.path.basename(sdir), property=meta.get('property'), at=time.strftime('%Y-%m-%d %H:%M:%S'))
    clean = tempfile.mkdtemp(prefix='pbt-seed-clean-', dir='/tmp')
    mut = tempfile.mkdtemp(prefix='pbt-seed-mut-', dir='/tmp')
    try:
        copy_repo(clean)
        copy_repo(mut)
        r = run(['patch', '-p1', '-s', '-i', os.path.join(sdir, 'patch.diff')], mut)
        res['patch_applies'] = r.returncode == 0
        if r.returncode != 0:
            res['error'] = (r.stdout + r.stderr)[-500:]
            return res
        r = run([PY, '-m', 'pytest', '-q', '-p', 'no:cacheprovider', 'test'], mut, {'PYTHONPATH': mut})
        res['tests_pass'] = r.returncode == 0
        res['tests_line'] = (r.stdout.strip().splitlines() or [''])[-1]
        d1 = run([PY, os.path.join(sdir, 'demo.py')], mut, {'PYTHONPATH': mut})
        d0 = run([PY, os.path.join(sdir, 'demo.py')], clean, {'PYTHONPATH': clean})
        res['demo_with_change'] = d1.returncode
        res['demo_without_change'] = d0.returncode
        res['confirmed'] = bool(res['tests_pass'] and d1.returncode != 0 and d0.returncode == 0)
        if confirm_only or not res['confirmed']:
            return res
        caught, outcomes = [], {}
        for pid in checks:
            ev = os.path.join(ROOT, 'evidence', f'{pid}.json')
            saved = open(ev).read() if os.path.exists(ev) else None
            t0 = time.time()
            try:
                r = run([PY, '-m', 'pbt.run', pid, '--tier', tier], ROOT, {'VERIF_REPO': mut, 'VERIF_SEED': str(seed)})
            finally:
                if saved is not None:
                    open(ev, 'w').write(saved)
            buckets = [l.strip()[len('bucket: '):] for l in r.stdout.splitlines() if l.strip().startswith('bucket: ')]
            outcomes[pid] = dict(exit=r.returncode, wall_s=round(time.time() - t0, 1), buckets=buckets[:5])
            if r.returncode == 1:
                caught.append(pid)
            elif r.returncode != 0:
                outcomes[pid]['stderr'] = r.stderr[-400:]
        res['tier'] = tier
        res['caught_by'] = caught
        res['checks'] = outcomes
        return res
    finally:
        shutil.rmtree(clean, ignore_errors=True)
        shutil.rmtree(mut, ignore_errors=True)


def main():
    ap = argparse.ArgumentParser()
    ap.add_argument('dirs', nargs='+')
    ap.add_argument('--checks')
    ap.add_argument('--all', action='store_true')
    ap.add_argument('--tier', default='quick')
    ap.add_argument('--confirm-only', action='store_true')
    ap.add_argument('--seed', type=int, default=1)
    a = ap.parse_args()
    for d in a.dirs:
        meta = json.load(open(os.path.join(d, 'meta.json')))
        checks = ALL if a.all else (a.checks.split(',') if a.checks else [meta['property']])
        res = evaluate(d, checks, a.tier, a.confirm_only, a.seed)
        if not a.confirm_only:
            json.dump(res, open(os.path.join(d, 'result.json'), 'w'), indent=1)
        print(json.dumps({k: v for k, v in res.items() if k != 'checks'}))
        for pid, o in (res.get('checks') or {}).items():
            print(f'   {pid}: exit={o["exit"]} {o["wall_s"]}s {o["buckets"][:2]}')


if __name__ == '__main__':
    sys.exit(main())
