"""Hypothesis strategies for abstract schemas over the DBML-expressible value domain.

Schemas are built by construction (no assume/filter on whole schemas).  `features` switches
sub-domains that an OPEN known finding makes destructive for some check; the caller decides
(through findings.off_features()) which ones stay off in a strict campaign.
"""
from __future__ import annotations

from typing import FrozenSet, List, Optional, Tuple

from hypothesis import strategies as st

from .model import (AColumn, AEnum, AEnumItem, AGroup, AIndex, AProject, ARef, ASchema, ASticky, ATable)
from .surface import RESERVED, Style, write

# feature flags -------------------------------------------------------------------------------
ALL_FEATURES = frozenset({
    'props',              # arbitrary properties on tables/columns (schema.allow_properties)
    'dot_in_name',        # F-DOT: quoted names containing '.'
    'quoted_type',        # F-TYPEQUOTE: column type that needs quotes ("character varying")
    'multiline_default',  # F-MLDEFAULT: multi-line string / expression defaults, multi-line index names
    'multiline_settings_note',  # F-MLSET: multi-line notes in column/index/enum-item settings
    'multiline_value',    # F-MLPROP: multi-line property and project values
    'str_bool_default',   # F-STRBOOL: string default 'true'/'false'/'null'
    'falsy_default',      # F-FALSY: default 0 / 0.0 / false / ''
    'float_exp',          # F-FLOATEXP: floats whose repr uses an exponent (API-built only)
    'triple_quote_text',  # F-TRIPLE: text containing '''
    'ref_col_trim',       # F-REFSPLIT: referenced column names with , ( ) or leading/trailing blanks
    'kw_prefix_name',     # F-KWPREFIX: bare names starting with note/indexes where a keyword is tried first
    'inline_m2m',         # inline '<>' (stored as not inline)
    'mixed_layout',       # standalone refs between tables (document order != render order)
    'ws_only_line',       # F-WSLINE: whitespace-only line inside a multi-line note
    'prop_newline',       # F-PROPNL: line break next to a property inside a column settings list (writer flag)
})
BASE_FEATURES = frozenset()

WORDS = ['users', 'orders', 'Items', 'x', 'T1', 'a_b', '_tmp', 'n42', 'ID', 'col', 'data', '9lives', 'Z',
         'merchant', 'country_code', 'A', 'b2', 'CamelCase', '__', '007']
QUOTED = ['my table', 'a-b', 'x#1', 'br{ace}', 'sq[uare]', "it's", 'naïve', '日本', 'a/b', 'semi;colon',
          'a:b', '50%', 'q?', '<tag>', 'a=b', '{0}', '{x}', 'a  b', "''", '`tick`', 'ünï', '@at',
          '// not a comment', '/* x */', 'a|b', '$1', '{c}', '{name}', '%s', '-1', 'a+b']
KW_PREFIXED = ['notes', 'notebook', 'indexes_x', 'Note1', 'note_version']
RESERVED_LIST = sorted(RESERVED)
SCHEMAS = ['public', 'public', 'public', 's1', 'Sales', 'my schema', 'enum', 'é', 'Public', 'PUBLIC', 'sales']
NAME_ALPHA = "abcXYZ019_ -#{}[]'/:;%?<>=`@|$éß日."
TEXT_ALPHA = "abc XYZ019_-#{}[]'\"/:;%\\?<>=`@|$éß日.,()*!"
ACTIONS = ['cascade', 'restrict', 'set null', 'set default', 'no action']
INDEX_TYPES = ['brin', 'btree', 'gin', 'gist', 'hash', 'spgist']
PLAIN_TYPES = ['int', 'integer', 'varchar', 'varchar(255)', 'decimal(10,2)', 'decimal(10, 2)', 'text',
               'int[]', 'timestamp', 'bool', 'json', 'VARCHAR2(10)', 'numeric(8)', 'varchar(max)',
               "enum('a', 'b')", 'custom((1), f(2))', 't((x))', 'custom.type', 'geo.point', 'uuid', 'text[]', 'INT', 'float8', 'x_y', '_t']
QUOTED_TYPES = ['character varying', 'double precision', 'my type(3)', 'timestamp with time zone']
EXPRS = ['now()', 'id * 2', "lower(name)", 'a + b', "'x' || name", 'uuid_generate_v4()', '(a)', 'x', '1',
         'coalesce(a, 0)', 'getdate()', "date_trunc('day', ts)", '"q" + 1', 'a {b}', 'é']
EXPR_ALPHA = "abcXYZ019_ +-*/%()[]{}<>=!.,:;'\"\\|&^~?@#$éß日"
EXPR_SPECIAL = ["replace(body, E'\\n', ' ')", "regexp_replace(x, '\\s+', ' ')", "'\\t'", 'a\\b', "E'\\r\\n'", '\\', "'it''s'", '"q"', '{x}', '(a) + (b)',
                '(price + 1) * (qty - 1)', '((x))', ' lead', 'trail ', 'a  b', "'\\0'", '\\f', 'x -- c', '/* c */ 1', 'a // b', '[1,2]', "'''"]


def exprs(features=frozenset()):
    free = st.text(alphabet=EXPR_ALPHA, min_size=1, max_size=16)
    return st.one_of(st.sampled_from(EXPRS), st.sampled_from(EXPRS), st.sampled_from(EXPR_SPECIAL), free)


COLORS = ['#fff', '#AbC', '#123456', '#aBcDeF', '#000', '#FFFFFF', '#09f']


def _has(features, f):
    return f in features


def names(features: FrozenSet[str], column: bool = False, bare_risky: bool = True):
    """Identifier strategy: word / needs-quoting / reserved word / random text."""
    alpha = NAME_ALPHA
    if not _has(features, 'dot_in_name'):
        alpha = alpha.replace('.', '')
    free = st.text(alphabet=alpha, min_size=1, max_size=8).filter(lambda s: s.strip(' ') != '')
    if column and not _has(features, 'ref_col_trim'):
        free = free.map(lambda s: s.strip(' ')).filter(lambda s: s != '')
    else:
        free = free.map(lambda s: s if column or s == s.strip(' ') or True else s)
    pools = [st.sampled_from(WORDS), st.sampled_from(WORDS), st.sampled_from(QUOTED),
             st.sampled_from(RESERVED_LIST), free]
    if _has(features, 'kw_prefix_name') and bare_risky:
        pools.append(st.sampled_from(KW_PREFIXED))
    if column and _has(features, 'ref_col_trim'):
        pools.append(st.sampled_from(['a,b', ' lead', 'trail ', '(p)', 'x)']))
    if _has(features, 'dot_in_name'):
        pools.append(st.sampled_from(['a.b', 'v1.2', 'x.y.z']))
    return st.one_of(pools)


def prop_keys(features):
    """Property / project-field keys: word identifiers (docs/properties.md)."""
    base = st.sampled_from(['k', 'key1', 'owner', 'Version', 'db_type', 'x_y', 'Z9', 'database_type', 'tag',
                            'comment_', 'a'])
    if _has(features, 'kw_prefix_name'):
        return st.one_of(base, st.sampled_from(['notes', 'nullable', 'pkg', 'uniqueness', 'indexes_x',
                                                 'incremental', 'refs', 'defaults']))
    return base


def line_text(features, min_size=0, max_size=24):
    t = st.text(alphabet=TEXT_ALPHA, min_size=min_size, max_size=max_size)
    specials = st.sampled_from(["it's", 'say "hi"', 'back\\slash', 'end\\', "'", '"', '\\', '`', '{x}', '{0}',
                                '// c', '/* c */', "'; DROP TABLE t; --", ']', '[', '}', '#fff', 'a\\nb',
                                '\\\\', "''", '""', 'é日本', ' lead', 'trail ', '%s', "\\'", 'x' * 60,
                                '123', '1.5', '-1', '{c}', '{name}', '%(x)s', '${x}', 'Table t {', 'Note: x', '[ref: > a.b]', 'NULL?'])
    pools = [t, t, specials]
    if _has(features, 'triple_quote_text'):
        pools.append(st.sampled_from(["'''", "a'''b", "''''", "x'''"]))
    out = st.one_of(pools)
    if not _has(features, 'triple_quote_text'):
        out = out.map(lambda s: s.replace("'''", "'-'"))
    return out


def note_text(features, multiline: bool = True):
    """Note text in normal form: no blank first/last line, minimum indentation 0, not empty."""
    first = line_text(features, 1).map(lambda s: s.lstrip(' ')).map(lambda s: s if s.strip(' ') else 'n' + s)
    if not multiline:
        return first
    inner = st.one_of(line_text(features, 0), st.sampled_from(['', '', '    indented', '  x']))
    if _has(features, 'ws_only_line'):
        inner = st.one_of(inner, st.sampled_from(['  ', ' ', '    ']))
    else:
        inner = inner.map(lambda l: l if l.strip(' ') else '')
    last = line_text(features, 1).map(lambda s: s if s.strip(' ') else s + 'z')

    @st.composite
    def multi(draw):
        lines = [draw(first)] + draw(st.lists(inner, max_size=3)) + [draw(last)]
        return '\n'.join(lines)
    return st.one_of(first, first, multi())


def raw_text(features, multiline: bool):
    # values that look like another kind of literal (they are strings all the same)
    alike = st.sampled_from(['true', 'false', 'null', 'NULL', 'True', '123', '1.5', '0', '`x`', '#fff', 'pk', 'not null'])
    one = st.one_of(line_text(features, 0), line_text(features, 0), line_text(features, 0), alike)
    if not multiline:
        return one
    many = st.lists(line_text(features, 0, 12), min_size=2, max_size=4).map('\n'.join)
    return st.one_of(one, one, many)


def defaults(features):
    ints = st.integers(1, 10 ** 6)
    floats = st.sampled_from([1.5, 0.25, 3.0, 12.125, 100.01, 2.5e10, 0.001])
    strs = line_text(features, 1).filter(lambda s: s.lower() not in ('true', 'false', 'null'))
    opts = [ints.map(lambda v: ('int', v)), floats.map(lambda v: ('float', v)),
            st.just(('bool', True)), st.just(('null', None)),
            strs.map(lambda v: ('str', v)), exprs(features).map(lambda v: ('expr', v)),
            st.integers(10 ** 18, 10 ** 30).map(lambda v: ('int', v))]
    if _has(features, 'falsy_default'):
        opts += [st.sampled_from([('int', 0), ('float', 0.0), ('bool', False), ('str', '')])] * 2
    if _has(features, 'str_bool_default'):
        opts.append(st.sampled_from([('str', 'true'), ('str', 'False'), ('str', 'NULL'), ('str', 'null')]))
    if _has(features, 'multiline_default'):
        opts.append(st.sampled_from([('str', 'l1\nl2'), ('expr', 'a +\n  b'), ('str', 'x\n  y\n')]))
    if _has(features, 'float_exp'):
        opts.append(st.sampled_from([('float', 1e-05), ('float', 1e+22), ('float', 2.5e-07)]))
    return st.one_of(opts)


class Sizes:
    def __init__(self, tables=4, columns=5, indexes=3, enums=2, items=4, refs=5, groups=2, stickies=2,
                 props=3):
        self.tables, self.columns, self.indexes, self.enums = tables, columns, indexes, enums
        self.items, self.refs, self.groups, self.stickies, self.props = items, refs, groups, stickies, props


QUICK = Sizes()
THOROUGH = Sizes(tables=6, columns=7, indexes=4, enums=3, items=5, refs=8, groups=3, stickies=3, props=4)


def case_twin(n: str):
    """a different name that equals n when letter case is ignored (names are case-sensitive everywhere), or None"""
    for cand in (n.swapcase(), n.upper(), n.lower(), n.capitalize()):
        if cand != n and cand.lower() == n.lower():
            return cand
    return None


@st.composite
def schemas(draw, features: FrozenSet[str] = BASE_FEATURES, sizes: Sizes = QUICK, min_tables: int = 0,
            want_refs: bool = True) -> ASchema:
    F = features
    # the library has twin grammars (with / without arbitrary properties): a third of the documents go through the default one
    props_on = _has(F, 'props') and draw(st.integers(0, 2)) > 0
    ml_set = _has(F, 'multiline_settings_note')
    # enums -----------------------------------------------------------------------------
    ekeys = draw(st.lists(st.tuples(st.sampled_from(SCHEMAS), names(F)), max_size=sizes.enums,
                          unique=True))
    if len(ekeys) >= 2 and draw(st.integers(0, 3)) == 0:
        s0, n0 = ekeys[0]
        s1 = ekeys[1][0] if ekeys[1][0] != s0 else next(x for x in SCHEMAS if x != s0)
        if (s1, n0) not in ekeys:
            ekeys[1] = (s1, n0)
    elif len(ekeys) >= 2 and case_twin(ekeys[0][1]) and draw(st.integers(0, 3)) == 0 and (ekeys[0][0], case_twin(ekeys[0][1])) not in ekeys:
        ekeys[1] = (ekeys[0][0], case_twin(ekeys[0][1]))
    enums = []
    for sch, nm in ekeys:
        inames = draw(st.lists(names(F, bare_risky=False), min_size=1, max_size=sizes.items, unique=True))
        if case_twin(inames[0]) and case_twin(inames[0]) not in inames and draw(st.integers(0, 4)) == 0:
            inames.insert(draw(st.integers(0, len(inames))), case_twin(inames[0]))
        items = [AEnumItem(n, draw(st.none() | note_text(F, ml_set))) for n in inames]
        enums.append(AEnum(sch, nm, items))
    enum_keys = {(e.schema, e.name) for e in enums}
    plain_pool = [t for t in PLAIN_TYPES
                  if ('public', t) not in enum_keys and tuple(t.split('.')) not in enum_keys]
    types = [st.sampled_from(plain_pool).map(lambda t: ('plain', t))] * 2
    if enums:
        types.append(st.sampled_from(enums).map(lambda e: ('enum', e.schema, e.name)))
    # near miss: a plain type spelled like the name of an enum that lives in another schema
    near = [e.name for e in enums if e.schema != 'public' and ('public', e.name) not in enum_keys
            and e.name.isidentifier() and e.name.isascii()]
    if near:
        types.append(st.sampled_from(near).map(lambda t: ('plain', t)))
    if _has(F, 'quoted_type'):
        types.append(st.sampled_from(QUOTED_TYPES).map(lambda t: ('plain', t)))
    types = st.one_of(types)
    # tables ----------------------------------------------------------------------------
    tkeys = draw(st.lists(st.tuples(st.sampled_from(SCHEMAS), names(F)), min_size=min_tables,
                          max_size=sizes.tables, unique=True))
    # the same table name in two schemas is where name-only shortcuts break: make it common
    if len(tkeys) >= 2 and draw(st.integers(0, 3)) == 0:
        s0, n0 = tkeys[0]
        s1 = tkeys[1][0] if tkeys[1][0] != s0 else next(x for x in SCHEMAS if x != s0)
        if (s1, n0) not in tkeys:
            tkeys[1] = (s1, n0)
    elif len(tkeys) >= 2 and case_twin(tkeys[0][1]) and draw(st.integers(0, 3)) == 0 and (tkeys[0][0], case_twin(tkeys[0][1])) not in tkeys:
        # ... and names that differ in letter case only are where case-insensitive shortcuts break
        tkeys[1] = (tkeys[0][0], case_twin(tkeys[0][1]))
    tnames = {n for _, n in tkeys}
    used_alias = set()
    tables: List[ATable] = []
    for sch, nm in tkeys:
        cnames = draw(st.lists(names(F, column=True, bare_risky=False), min_size=1, max_size=sizes.columns,
                               unique=True))
        k0 = draw(st.integers(0, len(cnames) - 1))
        if case_twin(cnames[k0]) and case_twin(cnames[k0]) not in cnames and draw(st.integers(0, 3)) == 0:
            cnames.insert(draw(st.integers(0, len(cnames))), case_twin(cnames[k0]))
        cols = []
        for cn in cnames:
            flags = draw(st.tuples(*[st.booleans()] * 4)) if draw(st.booleans()) else (False,) * 4
            c = AColumn(cn, draw(types), pk=flags[0], unique=flags[1], not_null=flags[2], autoinc=flags[3],
                        default=draw(st.none() | st.none() | defaults(F)),
                        note=draw(st.none() | st.none() | note_text(F, ml_set)))
            if props_on:
                keys = draw(st.lists(prop_keys(F), max_size=sizes.props, unique=True))
                c.props = [(k, draw(raw_text(F, _has(F, 'multiline_value')))) for k in keys]
            cols.append(c)
        alias = None
        if draw(st.integers(0, 3)) == 0:
            a = draw(names(F))
            if a not in tnames and a not in used_alias and '.' not in a:
                alias = a
                used_alias.add(a)
        t = ATable(sch, nm, cols, alias=alias,
                   note=draw(st.none() | note_text(F, True)),
                   header_color=draw(st.none() | st.none() | st.sampled_from(COLORS)))
        nidx = draw(st.integers(0, sizes.indexes)) if draw(st.booleans()) else 0
        for _ in range(nidx):
            k = draw(st.integers(1, min(3, len(cols))))
            subj_cols = draw(st.lists(st.sampled_from(cnames), min_size=k, max_size=k, unique=True))
            subjects = [('col', c) for c in subj_cols]
            if draw(st.integers(0, 3)) == 0:
                pos = draw(st.integers(0, len(subjects)))
                subjects.insert(pos, ('expr', draw(exprs(F))))
                if draw(st.booleans()) and len(subjects) > 1:
                    subjects = [s for s in subjects if s[0] == 'expr'] or subjects
            t.indexes.append(AIndex(
                subjects, name=draw(st.none() | line_text(F, 1) | (st.sampled_from(['two\nlines', 'a\n  b\n']) if _has(F, 'multiline_default') else st.none())),
                unique=draw(st.booleans()),
                type=draw(st.none() | st.sampled_from(INDEX_TYPES)), pk=draw(st.integers(0, 4)) == 0,
                note=draw(st.none() | st.none() | note_text(F, ml_set))))
        if props_on:
            keys = draw(st.lists(prop_keys(F), max_size=sizes.props, unique=True))
            t.props = [(k, draw(raw_text(F, _has(F, 'multiline_value')))) for k in keys]
        tables.append(t)
    s = ASchema(tables=tables, enums=enums, allow_properties=props_on)
    # refs ------------------------------------------------------------------------------
    seen = set()
    if tables and want_refs:
        nrefs = draw(st.integers(0, sizes.refs))
        for _ in range(nrefs):
            t1 = draw(st.sampled_from(tables))
            t2 = draw(st.sampled_from(tables))
            kinds = ['>', '<', '-', '<>']
            kind = draw(st.sampled_from(kinds))
            inline = draw(st.booleans())
            if inline and kind == '<>' and not _has(F, 'inline_m2m'):
                inline = False
            kmax = 1 if inline else min(3, len(t1.columns), len(t2.columns))
            k = draw(st.integers(1, kmax))
            c1 = draw(st.lists(st.sampled_from([c.name for c in t1.columns]), min_size=k, max_size=k, unique=True))
            c2 = draw(st.lists(st.sampled_from([c.name for c in t2.columns]), min_size=k, max_size=k, unique=True))
            r = ARef(kind, t1.key, c1, t2.key, c2, inline=inline)
            if not inline:
                r.name = draw(st.none() | names(F))
                if draw(st.booleans()):
                    r.on_update = draw(st.none() | st.sampled_from(ACTIONS))
                    r.on_delete = draw(st.none() | st.sampled_from(ACTIONS))
            sig = (r.kind, r.t1, tuple(r.c1), r.t2, tuple(r.c2), r.name, r.on_update, r.on_delete)
            if sig in seen:
                continue
            seen.add(sig)
            if inline:
                t1.col(c1[0]).refs.append(r)
            else:
                s.refs.append(r)
    # groups, stickies, project ----------------------------------------------------------------
    if tables:
        gnames = draw(st.lists(names(F), max_size=sizes.groups, unique=True))
        for g in gnames:
            items = draw(st.lists(st.sampled_from([t.key for t in tables]), max_size=4, unique=True))
            s.groups.append(AGroup(g, items, note=draw(st.none() | note_text(F, True)),
                                   color=draw(st.none() | st.sampled_from(COLORS))))
    for n in draw(st.lists(names(F), max_size=sizes.stickies)):
        # an empty sticky note is expressible (Note n { '' }) and is a falsy object
        s.stickies.append(ASticky(n, draw(st.one_of(note_text(F, True), note_text(F, True), note_text(F, True), st.just('')))))
    if draw(st.integers(0, 2)) == 0:
        keys = draw(st.lists(prop_keys(F).filter(lambda k: not k.lower().startswith('note')
                                                  or _has(F, 'kw_prefix_name')), max_size=3, unique=True))
        s.project = AProject(draw(names(F)),
                             [(k, draw(raw_text(F, _has(F, 'multiline_value')))) for k in keys],
                             note=draw(st.none() | note_text(F, True)))
    # layout: a random interleaving of the kinds; the order inside each kind is the list order
    kinds = [k for k, _ in s.default_layout()]
    if not _has(F, 'mixed_layout'):
        # standalone refs stay behind every table (then render order == document order for refs)
        rest = list(draw(st.permutations([k for k in kinds if k != 'ref'])))
        last_table = max([i for i, k in enumerate(rest) if k == 'table'], default=-1)
        for _ in s.refs:
            rest.insert(draw(st.integers(last_table + 1, len(rest))), 'ref')
        perm = rest
    else:
        perm = list(draw(st.permutations(kinds)))
    counters = {}
    lay = []
    for k in perm:
        lay.append((k, counters.get(k, 0)))
        counters[k] = counters.get(k, 0) + 1
    s.layout = lay
    return s


def styles(vary: float = 1.0, features=frozenset()):
    return st.randoms(use_true_random=False).map(lambda r: Style(r, vary, features))


@st.composite
def documents(draw, features: FrozenSet[str] = BASE_FEATURES, sizes: Sizes = QUICK, **kw):
    """(schema, text, lines) for a random schema in a random style."""
    s = draw(schemas(features, sizes, **kw))
    stl = draw(styles(features=features))
    text, lines = write(s, stl)
    return s, text, lines
