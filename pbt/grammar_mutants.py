"""Systematic single-site mutation of the grammar (pydbml/definitions/*.py) and blueprint builders as a
sensitivity measurement for the parse-side checks (the property file reports that 258 of 1315 grammar
mutants survive the repository's tests).

  python -m pbt.grammar_mutants generate            # enumerate sites, keep the mutants the 470 tests do not kill
  python -m pbt.grammar_mutants run [--checks C01,C07,C14,C15,C06,C05] [--limit N]

Operators (one site per mutant): `-` <-> `+` between parser elements, `[0, 1]` / `[...]` / `[1, ...]` bounds,
CaselessLiteral/CaselessKeyword -> Literal/Keyword, results-name removed, alternative (`|`) dropped, an
`if '<name>' in tok:` guard negated, `list_all_matches=True` removed.
Survivors are written to mutants/grammar/NNNN.patch, results to mutants/grammar/results.json.
Scratch copies live under /tmp and are removed.  Nothing here is used by the registered checks.
"""
import argparse
import concurrent.futures as cf
import difflib
import glob
import json
import os
import re
import shutil
import subprocess
import sys
import tempfile

ROOT = os.path.dirname(os.path.dirname(os.path.abspath(__file__)))
REPO = '/repo'
PY = '/venv/bin/python'
OUT = os.path.join(ROOT, 'mutants', 'grammar')
FILES = sorted(glob.glob(os.path.join(REPO, 'pydbml', 'definitions', '*.py'))) + [os.path.join(REPO, 'pydbml', 'parser', 'blueprints.py')]


def sites(path):
    """yield (line_no, description, new_line) single-site edits"""
    rel = os.path.relpath(path, REPO)
    lines = open(path).read().split('\n')
    for n, line in enumerate(lines):
        s = line.strip()
        if not s or s.startswith('#') or s.startswith('import') or s.startswith('from') or s.startswith("'''") or s.startswith('"""'):
            continue
        code = line
        # binary operators between elements
        for m in re.finditer(r' (-|\+) ', code):
            op = m.group(1)
            new = code[:m.start(1)] + ('+' if op == '-' else '-') + code[m.end(1):]
            yield n, f'{rel}:{n + 1} `{op}`->`{"+" if op == "-" else "-"}` @{m.start(1)}', new
        if s.startswith('-') or s.startswith('+'):
            k = len(code) - len(code.lstrip())
            op = code[k]
            if code[k + 1:k + 2] == ' ':
                yield n, f'{rel}:{n + 1} leading `{op}` flipped', code[:k] + ('+' if op == '-' else '-') + code[k + 1:]
        for m in re.finditer(r'\[0, 1\]', code):
            yield n, f'{rel}:{n + 1} [0, 1] removed', code[:m.start()] + code[m.end():]
            yield n, f'{rel}:{n + 1} [0, 1] -> [...]', code[:m.start()] + '[...]' + code[m.end():]
        for m in re.finditer(r'\[\.\.\.\]', code):
            yield n, f'{rel}:{n + 1} [...] -> [0, 1]', code[:m.start()] + '[0, 1]' + code[m.end():]
            yield n, f'{rel}:{n + 1} [...] -> [1, ...]', code[:m.start()] + '[1, ...]' + code[m.end():]
        for m in re.finditer(r'\[1, \.\.\.\]', code):
            yield n, f'{rel}:{n + 1} [1, ...] -> [...]', code[:m.start()] + '[...]' + code[m.end():]
        for m in re.finditer(r'pp\.Caseless(Literal|Keyword)\(', code):
            yield n, f'{rel}:{n + 1} Caseless{m.group(1)} -> {m.group(1)}', code[:m.start()] + f'pp.{m.group(1)}(' + code[m.end():]
        for m in re.finditer(r"\)\('(\w+\*?)'\)", code):
            yield n, f"{rel}:{n + 1} results name '{m.group(1)}' removed", code[:m.start() + 1] + code[m.end():]
        for m in re.finditer(r"(\w)\('(\w+\*?)'\)", code):
            if m.group(1) != ')':
                yield n, f"{rel}:{n + 1} results name '{m.group(2)}' removed", code[:m.start() + 1] + code[m.end():]
        m = re.match(r"^(\s*)if '(\w+)' in (tok|tok\['settings'\]):$", code)
        if m:
            yield n, f"{rel}:{n + 1} guard `if '{m.group(2)}' in tok` negated", f"{m.group(1)}if '{m.group(2)}' not in {m.group(3)}:"
        if 'list_all_matches=True' in code:
            yield n, f'{rel}:{n + 1} list_all_matches dropped', code.replace(', list_all_matches=True', '')
        # drop one alternative of a MatchFirst / Or written one per line
        if re.match(r'^\s*\| ', code):
            yield n, f'{rel}:{n + 1} alternative dropped', None
        m = re.match(r"^(\s*)(\w+)=self\.(\w+)( if .*)?,$", code)
        if m and rel.endswith('blueprints.py'):
            yield n, f'{rel}:{n + 1} keyword argument {m.group(2)} dropped', None


def make_patch(path, n, new_line):
    src = open(path).read().split('\n')
    dst = list(src)
    if new_line is None:
        del dst[n]
    else:
        dst[n] = new_line
    rel = os.path.relpath(path, REPO)
    a = [l + '\n' for l in src]
    b = [l + '\n' for l in dst]
    return ''.join(difflib.unified_diff(a, b, 'a/' + rel, 'b/' + rel))


def copy_repo(dst):
    for item in ('pydbml', 'test', 'docs', 'README.md', 'test_schema.dbml', 'setup.py'):
        src = os.path.join(REPO, item)
        if os.path.isdir(src):
            shutil.copytree(src, os.path.join(dst, item), ignore=shutil.ignore_patterns('__pycache__'))
        elif os.path.exists(src):
            shutil.copy(src, dst)


def try_suite(args):
    idx, desc, patch = args
    d = tempfile.mkdtemp(prefix='pbt-gm-', dir='/tmp')
    try:
        copy_repo(d)
        p = subprocess.run(['patch', '-p1', '-s'], input=patch, cwd=d, capture_output=True, text=True)
        if p.returncode != 0:
            return idx, desc, 'patch-failed'
        env = dict(os.environ, PYTHONPATH=d, PYTHONDONTWRITEBYTECODE='1')
        r = subprocess.run([PY, '-c', 'import pydbml'], cwd=d, capture_output=True, text=True, env=env)
        if r.returncode != 0:
            return idx, desc, 'import-error'
        r = subprocess.run([PY, '-m', 'pytest', '-q', '-x', '-p', 'no:cacheprovider', 'test'], cwd=d, capture_output=True, text=True, env=env, timeout=600)
        return idx, desc, 'survived' if r.returncode == 0 else 'killed-by-suite'
    except subprocess.TimeoutExpired:
        return idx, desc, 'suite-timeout'
    finally:
        shutil.rmtree(d, ignore_errors=True)


def generate():
    os.makedirs(OUT, exist_ok=True)
    for f in glob.glob(os.path.join(OUT, '*.patch')):
        os.remove(f)
    jobs = []
    seen = set()
    for path in FILES:
        for n, desc, new in sites(path):
            patch = make_patch(path, n, new)
            if not patch or patch in seen:
                continue
            seen.add(patch)
            jobs.append((len(jobs), desc, patch))
    print(len(jobs), 'mutants generated')
    stats = {}
    survivors = []
    with cf.ProcessPoolExecutor(16) as ex:
        for idx, desc, status in ex.map(try_suite, jobs, chunksize=4):
            stats[status] = stats.get(status, 0) + 1
            if status == 'survived':
                survivors.append((idx, desc))
    for idx, desc in survivors:
        with open(os.path.join(OUT, f'{idx:04d}.patch'), 'w') as fh:
            fh.write(jobs[idx][2])
    json.dump(dict(generated=len(jobs), suite=stats, survivors=[dict(id=f'{i:04d}', site=d) for i, d in survivors]),
              open(os.path.join(OUT, 'survivors.json'), 'w'), indent=1)
    print(stats)


def run(checks, limit, tier, site_filter=None, rerun_alive=False):
    surv = json.load(open(os.path.join(OUT, 'survivors.json')))['survivors']
    if site_filter:
        surv = [s for s in surv if re.search(site_filter, s['site'])]
    res_path = os.path.join(OUT, 'results.json')
    results = json.load(open(res_path)) if os.path.exists(res_path) else {}
    if rerun_alive:      # the generators changed: forget what was run against the mutants that are still alive
        for v in results.values():
            if not v.get('killed_by'):
                v['detail'] = {}
    # incremental passes: a mutant already killed is skipped, checks already run against it are not repeated
    todo = [s for s in surv if not (results.get(s['id']) or {}).get('killed_by')
            and any(c not in (results.get(s['id']) or {}).get('detail', {}) for c in checks)][:limit]
    for s in todo:
        patch = os.path.join(OUT, s['id'] + '.patch')
        d = tempfile.mkdtemp(prefix='pbt-gm-', dir='/tmp')
        try:
            copy_repo(d)
            subprocess.run(['patch', '-p1', '-s', '-i', patch], cwd=d, check=True)
            killed_by = None
            detail = dict((results.get(s['id']) or {}).get('detail', {}))
            for pid in checks:
                if pid in detail:
                    continue
                ev = os.path.join(ROOT, 'evidence', f'{pid}.json')
                saved = open(ev).read() if os.path.exists(ev) else None
                try:
                    r = subprocess.run([PY, '-m', 'pbt.run', pid, '--tier', tier], cwd=ROOT, capture_output=True, text=True,
                                       env=dict(os.environ, VERIF_REPO=d, PYTHONDONTWRITEBYTECODE='1'))
                finally:
                    if saved is not None:
                        open(ev, 'w').write(saved)
                detail[pid] = r.returncode
                if r.returncode == 1:
                    killed_by = pid
                    detail['bucket'] = next((l.strip() for l in r.stdout.splitlines() if l.strip().startswith('bucket:')), '')
                    break
            results[s['id']] = dict(site=s['site'], killed_by=killed_by, detail=detail)
            print(s['id'], s['site'], '->', killed_by or 'SURVIVED', flush=True)
            json.dump(results, open(res_path, 'w'), indent=1)
        finally:
            shutil.rmtree(d, ignore_errors=True)
    k = sum(1 for v in results.values() if v['killed_by'])
    print(f'{k} of {len(results)} suite-surviving mutants killed by the checks')


if __name__ == '__main__':
    ap = argparse.ArgumentParser()
    ap.add_argument('cmd', choices=['generate', 'run'])
    ap.add_argument('--checks', default='C01,C07,C14,C15,C06,C05,C08')
    ap.add_argument('--limit', type=int, default=10 ** 6)
    ap.add_argument('--tier', default='quick')
    ap.add_argument('--rerun-alive', action='store_true')
    ap.add_argument('--sites', default=None, help='regex over the site description, e.g. "\\[|Caseless|results name|guard|alternative|argument" to leave the +/- flips out')
    a = ap.parse_args()
    if a.cmd == 'generate':
        generate()
    else:
        run(a.checks.split(','), a.limit, a.tier, a.sites, a.rerun_alive)
