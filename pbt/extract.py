"""extract(db): read a pydbml Database through public attributes into the canonical content
form of model.expected().  Never uses the library's __eq__."""
from __future__ import annotations

from typing import Any, Dict

from .model import tag


def _note(n) -> Any:
    if n is None:
        return ''
    t = getattr(n, 'text', n)
    return t if isinstance(t, str) else ['!', type(t).__name__, repr(t)]


def _flag(v):
    return v if isinstance(v, bool) else ['!', type(v).__name__, repr(v)]


def _type(t):
    from pydbml.classes import Enum
    if isinstance(t, Enum):
        return ['enum', t.schema, t.name]
    if isinstance(t, str):
        return ['plain', t]
    return ['!', type(t).__name__, repr(t)]


def _default(d):
    from pydbml.classes import Expression
    if isinstance(d, Expression):
        return ['expr', d.text]
    return tag(d)


def _subject(s):
    from pydbml.classes import Column, Expression
    if isinstance(s, Column):
        return ['col', s.name]
    if isinstance(s, Expression):
        return ['expr', s.text]
    return tag(s)


def _props(p):
    if p is None:
        return []
    return [[k, v] for k, v in p.items()]


def _tkey(col):
    t = col.table
    return [t.schema, t.name] if t is not None else None


def column(c) -> Dict[str, Any]:
    return dict(name=c.name, type=_type(c.type), pk=_flag(c.pk), unique=_flag(c.unique),
                not_null=_flag(c.not_null), autoinc=_flag(c.autoinc), default=_default(c.default),
                note=_note(c.note), comment=c.comment, props=_props(c.properties))


def index(i) -> Dict[str, Any]:
    return dict(subjects=[_subject(s) for s in i.subjects], name=i.name, unique=_flag(i.unique),
                type=i.type, pk=_flag(i.pk), note=_note(i.note), comment=i.comment)


def table(t) -> Dict[str, Any]:
    return dict(schema=t.schema, name=t.name, alias=t.alias, note=_note(t.note),
                header_color=t.header_color, comment=t.comment, props=_props(t.properties),
                columns=[column(c) for c in t.columns], indexes=[index(i) for i in t.indexes])


def ref(r) -> Dict[str, Any]:
    return dict(type=r.type, inline=_flag(r.inline), t1=_tkey(r.col1[0]) if r.col1 else None,
                c1=[c.name for c in r.col1], t2=_tkey(r.col2[0]) if r.col2 else None,
                c2=[c.name for c in r.col2], name=r.name, on_update=r.on_update,
                on_delete=r.on_delete, comment=r.comment)


def enum(e) -> Dict[str, Any]:
    return dict(schema=e.schema, name=e.name, comment=e.comment,
                items=[dict(name=i.name, note=_note(i.note), comment=i.comment) for i in e.items])


def group(g) -> Dict[str, Any]:
    return dict(name=g.name, items=[[t.schema, t.name] for t in g.items], note=_note(g.note),
                color=g.color, comment=g.comment)


def project(p):
    if p is None:
        return None
    return dict(name=p.name, items=[[k, v] for k, v in p.items.items()], note=_note(p.note),
                comment=p.comment)


def extract(db) -> Dict[str, Any]:
    return dict(
        project=project(db.project),
        enums=[enum(e) for e in db.enums],
        tables=[table(t) for t in db.tables],
        refs=[ref(r) for r in db.refs],
        groups=[group(g) for g in db.table_groups],
        stickies=[dict(name=s.name, text=s.text) for s in db.sticky_notes],
    )


def strip_comments(content):
    """Copy of a content dict with every `comment` field erased (C14 inertness)."""
    if isinstance(content, dict):
        return {k: (None if k == 'comment' else strip_comments(v)) for k, v in content.items()}
    if isinstance(content, list):
        return [strip_comments(x) for x in content]
    return content
