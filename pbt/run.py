"""Entry point:  python -m pbt.run C08 --tier quick|thorough [--replay path]

exit 0: property held on everything explored (open known findings are printed as KNOWN-FINDING)
exit 1: VIOLATION property=<id> replay=<path>
exit 2: harness error (never disguised as either of the above)
"""
import argparse
import os
import sys
import traceback


def main(argv=None) -> int:
    ap = argparse.ArgumentParser()
    ap.add_argument('pid')
    ap.add_argument('--tier', default=os.environ.get('VERIF_TIER', 'quick'), choices=['quick', 'thorough'])
    ap.add_argument('--replay')
    ap.add_argument('--shards', type=int, default=16)
    a = ap.parse_args(argv)
    pid = a.pid.upper()
    modname = f'pbt.checks.{pid.lower()}'
    try:
        seed = int(os.environ.get('VERIF_SEED', '1') or '1')
    except ValueError:
        seed = 1
    os.environ.setdefault('PYTHONHASHSEED', '0')
    from . import core
    try:
        if a.replay:
            return core.run_replay(modname, pid, a.replay)
        return core.run_check(modname, pid, a.tier, seed, a.shards)
    except BaseException:
        print(f'HARNESS-ERROR property={pid}\n' + traceback.format_exc(), file=sys.stderr)
        return 2


if __name__ == '__main__':
    sys.exit(main())
