"""Expected DDL structure computed from the abstract schema (never from the library) and its
comparison with what sqlread.parse() found.  Each function returns [(key, message)]."""
from __future__ import annotations

from collections import Counter
from typing import List, Tuple

from .model import AColumn, ARef, ASchema, ATable
from .sqlread import Parsed, split_column_rest


def qn(schema: str, name: str) -> Tuple[str, ...]:
    return (name,) if schema == 'public' else (schema, name)


def qtext(q) -> str:
    return '.'.join(f'"{p}"' for p in q)


def type_text(c: AColumn) -> str:
    if c.type[0] == 'enum':
        return qtext(qn(c.type[1], c.type[2]))
    return c.type[1]


def default_texts(d) -> List[str]:
    """Admissible renderings of a default value (the statement fixes presence, not spelling of booleans)."""
    kind, v = d
    if kind == 'int':
        return [str(v)]
    if kind == 'float':
        return [repr(float(v))]
    if kind == 'bool':
        return [str(v), str(v).lower(), str(v).upper()]
    if kind == 'null':
        return ['NULL', 'null']
    if kind == 'str':
        return [v]
    if kind == 'expr':
        return [f'({v})']
    raise ValueError(kind)


def neutralised(note: str) -> List[str]:
    base = note.replace('\\\n', '')
    return [base.replace("'", '"'), base.replace("'", "''"), base.replace("'", "\\'")]


def subjects_text(ix) -> str:
    return ', '.join(f'"{v}"' if k == 'col' else f'({v})' for k, v in ix.subjects)


def m2m_refs(s: ASchema) -> List[ARef]:
    return [r for r in s.all_refs() if r.kind == '<>']


def join_qname(s: ASchema, r: ARef):
    return qn(r.t1[0], f'{r.t1[1]}_{r.t2[1]}')


def split_tables(s: ASchema, p: Parsed):
    """declared-table statements (first len(tables)) and join-table statements (the rest)."""
    n = len(s.tables)
    return p.tables[:n], p.tables[n:]


# ---------------------------------------------------------------------------------------------

def check_c03(s: ASchema, p: Parsed) -> List[Tuple[str, str]]:
    out = []
    for u in p.unreadable:
        out.append(('unreadable', f'statement not of any documented shape: {u[:200]!r}'))
    # enums
    exp_types = [(qn(e.schema, e.name), [i.name for i in e.items]) for e in s.enums]
    act_types = [(t.qname, t.items) for t in p.types]
    if [q for q, _ in exp_types] != [q for q, _ in act_types]:
        out.append(('types', f'CREATE TYPE statements {[q for q, _ in act_types]} != enums {[q for q, _ in exp_types]}'))
    else:
        for (q, ei), (_, ai) in zip(exp_types, act_types):
            if ei != ai:
                out.append(('type.items', f'enum {q}: items {ai} != declared {ei}'))
    for t in p.types:
        for o in t.other:
            out.append(('type.other', f'unreadable line in CREATE TYPE {t.raw_name}: {o!r}'))
    # tables: each declared table exactly once (+ the join tables of many-to-many references)
    declared, joins = split_tables(s, p)
    exp_q = Counter(qn(t.schema, t.name) for t in s.tables)
    act_q = Counter(t.qname for t in declared)
    if exp_q != act_q:
        out.append(('tables', f'CREATE TABLE statements {sorted(act_q.elements())} != declared tables {sorted(exp_q.elements())}'))
    exp_join = [join_qname(s, r) for r in m2m_refs(s)]
    if [j.qname for j in joins] != exp_join:
        out.append(('tables.extra', f'extra CREATE TABLE statements {[j.qname for j in joins]} != join tables of many-to-many references {exp_join}'))
    by_q = {}
    for st in declared:
        by_q.setdefault(st.qname, st)
    exp_idx, exp_com = Counter(), Counter()
    for t in s.tables:
        q = qn(t.schema, t.name)
        st = by_q.get(q)
        composite = sum(c.pk for c in t.columns) > 1
        for ix in t.indexes:
            if not ix.pk:
                exp_idx[(bool(ix.unique), ix.name, q, ix.type.upper() if ix.type else None, subjects_text(ix))] += 1
        if t.note:
            exp_com[('TABLE', q)] += 1
        for c in t.columns:
            if c.note:
                exp_com[('COLUMN', q + (c.name,))] += 1
        if st is None:
            continue
        for o in st.other:
            out.append(('table.other', f'unreadable line in CREATE TABLE {st.raw_name}: {o!r}'))
        if [c.name for c in st.columns] != [c.name for c in t.columns]:
            out.append(('columns', f'table {q}: columns {[c.name for c in st.columns]} != declared {[c.name for c in t.columns]}'))
            continue
        for c, line in zip(t.columns, st.columns):
            ty, flags, default, problem = split_column_rest(line.rest, type_text(c))
            where = f'table {q} column {c.name!r}'
            if problem:
                out.append(('column.syntax', f'{where}: {problem}'))
                continue
            if ty != type_text(c):
                out.append(('column.type', f'{where}: type {ty!r} != {type_text(c)!r}'))
            exp_flags = set()
            if c.pk and not composite:
                exp_flags.add('PRIMARY KEY')
            if c.autoinc:
                exp_flags.add('AUTOINCREMENT')
            if c.unique:
                exp_flags.add('UNIQUE')
            if c.not_null:
                exp_flags.add('NOT NULL')
            for f in sorted(exp_flags ^ flags):
                out.append((f'column.flag.{f}', f'{where}: {f} {"missing" if f in exp_flags else "emitted but not set"} (line: {line.rest!r})'))
            if c.default is None:
                if default is not None:
                    out.append(('column.default.extra', f'{where}: DEFAULT {default!r} emitted but no default set'))
            elif default is None:
                out.append(('column.default.missing', f'{where}: default {c.default!r} not emitted (line: {line.rest!r})'))
            elif default not in default_texts(c.default):
                out.append(('column.default.value', f'{where}: DEFAULT {default!r}, expected one of {default_texts(c.default)!r}'))
        exp_pks = Counter(subjects_text(ix) for ix in t.indexes if ix.pk)
        if composite:
            exp_pks[', '.join(f'"{c.name}"' for c in t.columns if c.pk)] += 1
        if Counter(st.pks) != exp_pks:
            out.append(('table.pk', f'table {q}: PRIMARY KEY clauses {sorted(st.pks)} != expected {sorted(exp_pks.elements())}'))
    act_idx = Counter((i.unique, i.name, i.table, i.type, i.subjects) for i in p.indexes)
    if act_idx != exp_idx:
        out.append(('indexes', f'CREATE INDEX statements: unexpected {sorted(map(str, (act_idx - exp_idx).elements()))}, '
                               f'missing {sorted(map(str, (exp_idx - act_idx).elements()))}'))
    act_com = Counter((c.kind, c.target) for c in p.comment_ons)
    if act_com != exp_com:
        out.append(('comment_on', f'COMMENT ON statements: unexpected {sorted(map(str, (act_com - exp_com).elements()))}, '
                                  f'missing {sorted(map(str, (exp_com - act_com).elements()))}'))
    else:
        notes = {}
        for t in s.tables:
            q = qn(t.schema, t.name)
            if t.note:
                notes[('TABLE', q)] = t.note
            for c in t.columns:
                if c.note:
                    notes[('COLUMN', q + (c.name,))] = c.note
        for c in p.comment_ons:
            note = notes[(c.kind, c.target)]
            if c.text not in neutralised(note):
                out.append(('comment_on.text', f'COMMENT ON {c.kind} {c.target}: literal {c.text!r} is not the note {note!r} with quotes neutralised'))
            if "'" in c.text.replace("''", '').replace("\\'", ''):
                out.append(('comment_on.quote', f'COMMENT ON {c.kind} {c.target}: raw single quote inside the literal {c.text!r}'))
    return out


# ---------------------------------------------------------------------------------------------

def expected_fks(s: ASchema):
    out = []
    for r in s.all_refs():
        if r.kind == '<>':
            continue
        if r.kind in ('>', '-'):
            holder, cols, ref, refcols = r.t1, r.c1, r.t2, r.c2
        else:
            holder, cols, ref, refcols = r.t2, r.c2, r.t1, r.c1
        out.append((qn(*holder), tuple(cols), qn(*ref), tuple(refcols), r.name,
                    r.on_update.upper() if r.on_update else None, r.on_delete.upper() if r.on_delete else None,
                    'inline' if r.inline else 'alter'))
    return out


def check_c04(s: ASchema, p: Parsed) -> List[Tuple[str, str]]:
    out = []
    declared, joins = split_tables(s, p)
    join_names = Counter(j.qname for j in joins)
    actual = []
    join_alters = []
    n_decl = len(s.tables)
    for st in p.tables:
        for fk in st.fks:
            actual.append((fk.holder, tuple(fk.cols), fk.ref, tuple(fk.refcols), fk.name, fk.on_update, fk.on_delete, 'inline'))
    # the two ALTERs directly after a join table belong to that many-to-many reference
    owned = set()
    for k, (kind, idx) in enumerate(p.order):
        if kind == 'table' and idx >= n_decl:
            follow = [(kk, ii) for kk, ii in p.order[k + 1:k + 3] if kk == 'alter']
            for kk, ii in follow:
                if p.alters[ii].holder == p.tables[idx].qname:
                    owned.add(ii)
    for i, fk in enumerate(p.alters):
        rec = (fk.holder, tuple(fk.cols), fk.ref, tuple(fk.refcols), fk.name, fk.on_update, fk.on_delete, 'alter')
        if i in owned:
            join_alters.append(fk)
        else:
            actual.append(rec)
    exp = Counter(expected_fks(s))
    act = Counter(actual)
    for rec in (act - exp).elements():
        out.append(('fk.unexpected', f'foreign key not declared by any reference (or rendered twice / misplaced): {rec}'))
    for rec in (exp - act).elements():
        out.append(('fk.missing', f'reference not rendered as declared: expected {rec}; rendered: {sorted(map(str, act.elements()))}'))
    # many-to-many
    m2m = m2m_refs(s)
    if len(joins) != len(m2m):
        out.append(('m2m.count', f'{len(joins)} join tables for {len(m2m)} many-to-many references'))
        return out
    ja = list(join_alters)
    for r, jt in zip(m2m, joins):
        where = f'join table of {r.t1}.{r.c1} <> {r.t2}.{r.c2}'
        if jt.qname != join_qname(s, r):
            out.append(('m2m.name', f'{where}: named {jt.qname}, expected {join_qname(s, r)}'))
        src = [s.table(r.t1).col(c) for c in r.c1] + [s.table(r.t2).col(c) for c in r.c2]
        if len(jt.columns) != len(src):
            out.append(('m2m.columns', f'{where}: {len(jt.columns)} columns for {len(src)} referenced columns'))
            continue
        for c, line in zip(src, jt.columns):
            ty, flags, default, problem = split_column_rest(line.rest, type_text(c))
            if problem or ty != type_text(c):
                out.append(('m2m.type', f'{where}: column {line.name!r} is {line.rest!r}, expected type {type_text(c)!r}'))
            if 'NOT NULL' not in flags:
                out.append(('m2m.notnull', f'{where}: column {line.name!r} is not NOT NULL'))
        names = [c.name for c in jt.columns]
        pk_ok = any([x for x in __import__('re').findall(r'"([^"]*)"', pk)] == names for pk in jt.pks) or \
            (len(names) == 1 and 'PRIMARY KEY' in split_column_rest(jt.columns[0].rest)[1])
        if not pk_ok:
            out.append(('m2m.pk', f'{where}: no PRIMARY KEY over all of {names} (clauses: {jt.pks})'))
        mine = [fk for fk in ja if fk.holder == jt.qname][:2]
        for fk in mine:
            ja.remove(fk)
        n1 = len(r.c1)
        want = [(names[:n1], qn(*r.t1), list(r.c1)), (names[n1:], qn(*r.t2), list(r.c2))]
        got = [(fk.cols, fk.ref, fk.refcols) for fk in mine]
        if sorted(map(str, got)) != sorted(map(str, want)):
            out.append(('m2m.fks', f'{where}: foreign keys back {got}, expected {want}'))
    return out


# ---------------------------------------------------------------------------------------------

def check_c18_order(s: ASchema, p: Parsed):
    """(permutation problems, violating inline edges [(holder_q, target_q)])"""
    out = []
    declared, _ = split_tables(s, p)
    exp_q = Counter(qn(t.schema, t.name) for t in s.tables)
    if Counter(t.qname for t in declared) != exp_q:
        out.append(('permutation', f'CREATE TABLE sequence {[t.qname for t in declared]} is not a permutation of the tables {sorted(exp_q.elements())}'))
        return out, []
    pos = {t.qname: i for i, t in enumerate(declared)}
    edges = []
    for st in declared:
        for fk in st.fks:
            if fk.ref != st.qname and fk.ref in pos and pos[fk.ref] > pos[st.qname]:
                edges.append((st.qname, fk.ref))
            elif fk.ref not in pos:
                # the target of the clause is created nowhere in the script: no order can make it executable
                out.append(('target-missing', f'the inline FOREIGN KEY of {st.qname} references {fk.ref}, which no CREATE TABLE of the script creates'))
    return out, edges
