"""Small helpers shared by the checks: parse outcome classification, exception bucketing,
element walks."""
from __future__ import annotations

import os
import traceback
from typing import Any, Iterator, List, Tuple

from .core import REPO


def lib_exceptions():
    import pydbml.exceptions as E
    return tuple(v for v in vars(E).values() if isinstance(v, type) and issubclass(v, Exception))


def allowed_parse_exceptions():
    import pyparsing as pp
    return (pp.ParseBaseException, SyntaxError) + lib_exceptions()


def innermost_frame(exc: BaseException, pkg: str = 'pydbml') -> str:
    """file:function of the innermost traceback frame that lies in the package under test."""
    best = None
    root = os.path.join(os.path.abspath(REPO), pkg) + os.sep
    for fs in traceback.extract_tb(exc.__traceback__):
        fn = os.path.abspath(fs.filename)
        if fn.startswith(root):
            best = f'{fn[len(root):]}:{fs.name}'
    return best or 'outside-' + pkg


def exc_key(exc: BaseException) -> str:
    return f'{type(exc).__name__}@{innermost_frame(exc)}'


def parse(text: str, **kw):
    from pydbml import PyDBML
    return PyDBML.parse(text, **kw) if kw else PyDBML(text) if text != '' else PyDBML.parse(text)


def classify_parse(text: str, **kw) -> Tuple[str, Any]:
    """('db', Database) | ('reject', exc) for a documented rejection | ('crash', exc) otherwise."""
    from pydbml import PyDBML
    try:
        db = PyDBML.parse(text, **kw)
    except allowed_parse_exceptions() as e:
        return 'reject', e
    except RecursionError as e:
        return 'recursion', e
    except Exception as e:  # noqa
        return 'crash', e
    return 'db', db


def has_prop(obj: Any, name: str) -> bool:
    return getattr(type(obj), name, None) is not None


def elements(db) -> Iterator[Tuple[str, Any]]:
    """Every element of a database with a path label."""
    if db.project is not None:
        yield 'project', db.project
        if getattr(db.project, 'note', None) is not None:
            yield 'project.note', db.project.note
    for i, e in enumerate(db.enums):
        yield f'enums[{i}]', e
        for j, it in enumerate(e.items):
            yield f'enums[{i}].items[{j}]', it
            yield f'enums[{i}].items[{j}].note', it.note
    for i, t in enumerate(db.tables):
        yield f'tables[{i}]', t
        yield f'tables[{i}].note', t.note
        for j, c in enumerate(t.columns):
            yield f'tables[{i}].columns[{j}]', c
            yield f'tables[{i}].columns[{j}].note', c.note
            from pydbml.classes import Expression
            if isinstance(c.default, Expression):
                yield f'tables[{i}].columns[{j}].default', c.default
        for j, ix in enumerate(t.indexes):
            yield f'tables[{i}].indexes[{j}]', ix
            yield f'tables[{i}].indexes[{j}].note', ix.note
    for i, r in enumerate(db.refs):
        yield f'refs[{i}]', r
    for i, g in enumerate(db.table_groups):
        yield f'table_groups[{i}]', g
        if g.note is not None:
            yield f'table_groups[{i}].note', g.note
    for i, s in enumerate(db.sticky_notes):
        yield f'sticky_notes[{i}]', s


def render_everything(db) -> List[Tuple[str, BaseException]]:
    """Evaluate .dbml and .sql of the database and of each element; return the failures."""
    bad = []
    for what in ('dbml', 'sql'):
        try:
            getattr(db, what)
        except Exception as e:  # noqa
            bad.append((f'db.{what}', e))
    for path, el in elements(db):
        for what in ('dbml', 'sql'):
            if has_prop(el, what):
                try:
                    getattr(el, what)
                except Exception as e:  # noqa
                    bad.append((f'{path}.{what}', e))
    return bad
